// HKDF / HKDFA objects and one-shots, PBKDF2.
#include "drv.h"
#include <ascon/hkdf.h>
#include <ascon/pbkdf2.h>
#include <ascon/utility.h>

static void dump_hk(Ev &ev, void *m) {
    ascon_hkdf_state_t *s = (ascon_hkdf_state_t *)m;   // hkdf and hkdfa states have the same layout
    ev.b("prk", s->prk, 32).b("sout", s->out, 32).n("counter", s->counter).n("posn", s->posn);
}
static void hk_extract(const Args &a) {
    std::string k = a.str("kind"); int id = (int)a.num("obj");
    Obj &o = obj_new(id, k, sizeof(ascon_hkdf_state_t));
    if (a.has("junk")) memset(o.mem, (int)a.num("junk"), o.size);
    bytes_t key = a.hex("key"), salt = a.hex("salt"); bool nie = a.num("null_if_empty") != 0;
    InBuf kb(key, nie), sb(salt, nie);
    if (k == "hkdf") ascon_hkdf_extract((ascon_hkdf_state_t *)o.mem, kb.p, kb.n, sb.p, sb.n);
    else if (k == "hkdfa") ascon_hkdfa_extract((ascon_hkdfa_state_t *)o.mem, kb.p, kb.n, sb.p, sb.n);
    else fatal("hkdf kind");
    Ev ev("hkdf.extract"); ev.s("kind", k).n("obj", id).b("key", key).b("salt", salt); dump_hk(ev, o.mem); ev.emit();
}
static void hk_expand(const Args &a) {
    std::string k = a.str("kind"); int id = (int)a.num("obj");
    void *m = obj_get(id, k.c_str()).mem;
    bytes_t info = a.hex("info"); size_t n = (size_t)a.num("n");
    InBuf ib(info, a.num("null_if_empty") != 0);
    OutBuf out(n, (unsigned)a.num("align"));
    int ret = k == "hkdf" ? ascon_hkdf_expand((ascon_hkdf_state_t *)m, ib.p, ib.n, out.p, n)
                          : ascon_hkdfa_expand((ascon_hkdfa_state_t *)m, ib.p, ib.n, out.p, n);
    Ev ev("hkdf.expand"); ev.s("kind", k).n("obj", id).b("info", info).n("n", (long long)n).n("ret", ret < 0 ? -1 : ret);
    if (n <= 600) ev.b("out", out.get(n)); else { ev.b("out", bytes_t()).b("head", out.get(64)).b("tail", bytes_t(out.p + n - 64, out.p + n)); }
    ev.n("guard", out.guards_ok()); dump_hk(ev, m); ev.emit();
}
static void hk_poke(const Args &a) {
    // position the object through its documented public fields (hkdf.h: counter, posn)
    std::string k = a.str("kind"); int id = (int)a.num("obj");
    ascon_hkdf_state_t *s = (ascon_hkdf_state_t *)obj_get(id, k.c_str()).mem;
    if (a.has("counter")) s->counter = (unsigned char)a.num("counter");
    if (a.has("posn")) s->posn = (unsigned char)a.num("posn");
    Ev ev("hkdf.poke"); ev.s("kind", k).n("obj", id); dump_hk(ev, s); ev.emit();
}
static void hk_free(const Args &a) {
    std::string k = a.str("kind"); int id = (int)a.num("obj");
    Obj &o = obj_get(id, k.c_str());
    if (k == "hkdf") ascon_hkdf_free((ascon_hkdf_state_t *)o.mem); else ascon_hkdfa_free((ascon_hkdfa_state_t *)o.mem);
    Ev ev("hkdf.free"); ev.s("kind", k).n("obj", id);
    if (a.num("dump_raw")) ev.n("wipe", a.num("wipe")).b("raw", (const uint8_t *)o.mem, o.size);
    ev.emit(); obj_del(id);
}
static void os_hkdf(const Args &a) {
    std::string k = a.str("kind");
    bytes_t key = a.hex("key"), salt = a.hex("salt"), info = a.hex("info"); size_t n = (size_t)a.num("n");
    bool nie = a.num("null_if_empty") != 0;
    InBuf kb(key, nie), sb(salt, nie), ib(info, nie);
    OutBuf out(n, (unsigned)a.num("align"));
    int ret = k == "hkdf" ? ascon_hkdf(out.p, n, kb.p, kb.n, sb.p, sb.n, ib.p, ib.n)
                          : ascon_hkdfa(out.p, n, kb.p, kb.n, sb.p, sb.n, ib.p, ib.n);
    Ev ev("os.hkdf"); ev.s("kind", k).b("key", key).b("salt", salt).b("info", info).n("n", (long long)n).n("ret", ret < 0 ? -1 : ret);
    // long outputs are logged as head, tail and a 32-byte XOR fold (the spec folds its own stream the same way)
    if (n <= 600) ev.b("out", out.get(n));
    else {
        uint8_t fold[32]; memset(fold, 0, 32);
        for (size_t i = 0; i < n; ++i) fold[i % 32] ^= out.p[i];
        ev.b("out", bytes_t()).b("head", out.get(64)).b("tail", bytes_t(out.p + n - 64, out.p + n)).b("fold", fold, 32);
    }
    ev.n("guard", out.guards_ok()).n("untouched", out.untouched(0, n)); ev.emit();
}
static void os_pbkdf2(const Args &a) {
    std::string k = a.str("kind");
    bytes_t pw = a.hex("pw"), salt = a.hex("salt"); size_t n = (size_t)a.num("n"); unsigned long count = (unsigned long)a.unum("count");
    bool nie = a.num("null_if_empty") != 0;
    InBuf pb(pw, nie), sb(salt, nie);
    OutBuf out(n, (unsigned)a.num("align"));
    if (k == "pbkdf2") ascon_pbkdf2(out.p, n, pb.p, pb.n, sb.p, sb.n, count);
    else if (k == "pbkdf2_hmac") ascon_pbkdf2_hmac(out.p, n, pb.p, pb.n, sb.p, sb.n, count);
    else fatal("pbkdf2 kind");
    Ev ev("os.pbkdf2"); ev.s("kind", k).b("pw", pw).b("salt", salt).n("count", (long long)count).n("n", (long long)n);
    ev.b("out", out.get(n)).n("guard", out.guards_ok()); ev.emit();
}
// PBKDF2 with a long output of which only selected 32-byte blocks T_i are logged (the spec computes each
// T_i on its own from its index): block indices beyond one byte and beyond two bytes of the counter
static void os_pbkdf2_blocks(const Args &a) {
    std::string k = a.str("kind");
    bytes_t pw = a.hex("pw"), salt = a.hex("salt"); size_t n = (size_t)a.num("n"); unsigned long count = (unsigned long)a.unum("count");
    std::vector<long long> idx = a.list("blocks");
    InBuf pb(pw), sb(salt);
    OutBuf out(n);
    if (k == "pbkdf2") ascon_pbkdf2(out.p, n, pb.p, pb.n, sb.p, sb.n, count);
    else if (k == "pbkdf2_hmac") ascon_pbkdf2_hmac(out.p, n, pb.p, pb.n, sb.p, sb.n, count);
    else fatal("pbkdf2 kind");
    std::ostringstream os; os << "[";
    for (size_t j = 0; j < idx.size(); ++j) {
        size_t i = (size_t)idx[j]; if (i < 1 || (i - 1) * 32 >= n) fatal("block %zu outside the output", i);
        size_t len = n - (i - 1) * 32 < 32 ? n - (i - 1) * 32 : 32;
        if (j) os << ",";
        os << "{\"i\":" << i << ",\"t\":[";
        for (size_t b = 0; b < len; ++b) { if (b) os << ","; os << (unsigned)out.p[(i - 1) * 32 + b]; }
        os << "]}";
    }
    os << "]";
    Ev ev("os.pbkdf2_blocks"); ev.s("kind", k).b("pw", pw).b("salt", salt).n("count", (long long)count).n("n", (long long)n).raw("blocks", os.str());
    ev.n("guard", out.guards_ok()); ev.emit();
}
void reg_kdf() {
    reg("hkdf.extract", hk_extract); reg("hkdf.expand", hk_expand); reg("hkdf.poke", hk_poke); reg("hkdf.free", hk_free);
    reg("os.hkdf", os_hkdf); reg("os.pbkdf2", os_pbkdf2); reg("os.pbkdf2_blocks", os_pbkdf2_blocks);
}
