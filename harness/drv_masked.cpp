// Internal masked-word / masked-state toolkit and masked keys (C10, C12, C13).
// Every event logs the unmasked value (read with the library's store function of the same share
// count), the raw share words before and after the call, and the random values handed out.
#include "drv.h"
extern "C" {
#include "masking/ascon-masked-state.h"
}
#include <ascon/masking.h>
#include <ascon/utility.h>

#if defined(ASCON_MASKED_WORD_BACKEND_C32)
#define W64 0
#else
#define W64 1
#endif
#define MAXS ASCON_MASKED_MAX_SHARES

static thread_local ascon_trng_state_t g_trng; static thread_local bool g_trng_ok = false;
static ascon_trng_state_t *trng() { if (!g_trng_ok) { ascon_trng_init(&g_trng); g_trng_ok = true; } return &g_trng; }
static void need(int n) { if (n < 2 || n > MAXS) fatal("share count %d not available (max %d)", n, MAXS); }

#if MAXS >= 4
#define D(n, f, ...) do { if ((n) == 2) ascon_masked_word_x2_##f(__VA_ARGS__); else if ((n) == 3) ascon_masked_word_x3_##f(__VA_ARGS__); else ascon_masked_word_x4_##f(__VA_ARGS__); } while (0)
#define DS(n, f, ...) do { if ((n) == 2) ascon_x2_##f(__VA_ARGS__); else if ((n) == 3) ascon_x3_##f(__VA_ARGS__); else ascon_x4_##f(__VA_ARGS__); } while (0)
#elif MAXS == 3
#define D(n, f, ...) do { if ((n) == 2) ascon_masked_word_x2_##f(__VA_ARGS__); else ascon_masked_word_x3_##f(__VA_ARGS__); } while (0)
#define DS(n, f, ...) do { if ((n) == 2) ascon_x2_##f(__VA_ARGS__); else ascon_x3_##f(__VA_ARGS__); } while (0)
#else
#define D(n, f, ...) ascon_masked_word_x2_##f(__VA_ARGS__)
#define DS(n, f, ...) ascon_x2_##f(__VA_ARGS__)
#endif

static bytes_t wval(int n, const ascon_masked_word_t *w) { uint8_t b[8]; D(n, store, b, w); return bytes_t(b, b + 8); }
static std::string wraw(int n, const ascon_masked_word_t *w) {
    // shares as lists of four 16-bit limbs, most significant first (64-bit view)
    std::ostringstream os; os << "[";
    for (int i = 0; i < n; ++i) {
        uint64_t v = w->S[i]; if (i) os << ",";
        os << "[" << ((v >> 48) & 0xffff) << "," << ((v >> 32) & 0xffff) << "," << ((v >> 16) & 0xffff) << "," << (v & 0xffff) << "]";
    }
    os << "]"; return os.str();
}
static ascon_masked_word_t *wobj(int id) { return (ascon_masked_word_t *)obj_get(id, "mword").mem; }
static ascon_masked_word_t *wnew(int id) { return (ascon_masked_word_t *)obj_new(id, "mword", sizeof(ascon_masked_word_t)).mem; }
static void settape(const Args &a) { if (a.has("tape")) tape_set_mask(a.str("tape"), a.hex("tapedata")); tape_used_json(); }

// mw.op: name = zero|load|load_partial|load_32|store|store_partial|randomize|xor|replace|from|pad|separator
static void mw_op(const Args &a) {
    int n = (int)a.num("n"); need(n); std::string name = a.str("name"); int id = (int)a.num("obj");
    bytes_t d = a.hex("data"), d2 = a.hex("data2"); unsigned size = (unsigned)a.num("size");
    settape(a);
    Ev ev("mw.op"); ev.s("name", name).n("n", n).n("obj", id).n("w64", W64).b("data", d).b("data2", d2).n("size", size).n("src", a.num("src")).n("m", a.num("m"));
    if (name == "zero") { ascon_masked_word_t *w = wnew(id); D(n, zero, w, trng()); }
    else if (name == "load") { ascon_masked_word_t *w = wnew(id); InBuf b(d, false, (unsigned)a.num("align")); D(n, load, w, b.p, trng()); }
    else if (name == "load_partial") { ascon_masked_word_t *w = wnew(id); InBuf b(d, a.num("null_if_empty") != 0, (unsigned)a.num("align")); D(n, load_partial, w, b.p, (unsigned)d.size(), trng()); }
    else if (name == "load_32") { ascon_masked_word_t *w = wnew(id); InBuf b1(d), b2(d2); D(n, load_32, w, b1.p, b2.p, trng()); }
    else if (name == "store") { OutBuf o(8, (unsigned)a.num("align")); D(n, store, o.p, wobj(id)); ev.b("out", o.get(8)).n("guard", o.guards_ok()); }
    else if (name == "store_partial") { OutBuf o(size, (unsigned)a.num("align")); D(n, store_partial, o.p, size, wobj(id)); ev.b("out", o.get(size)).n("guard", o.guards_ok()); }
    else if (name == "randomize") {
        ascon_masked_word_t *src = wobj((int)a.num("src")); ev.raw("raw_before", wraw(n, src));
        ascon_masked_word_t *dst = a.num("src") == id ? src : wnew(id);
        D(n, randomize, dst, src, trng());
    }
    else if (name == "xor") { ascon_masked_word_t *w = wobj(id); D(n, xor, w, wobj((int)a.num("src"))); }
    else if (name == "replace") { ascon_masked_word_t *w = wobj(id); D(n, replace, w, wobj((int)a.num("src")), size); }
    else if (name == "from") {      // convert a word with m shares into one with n shares
        // dest == src (conversion in place) is what the masked AEAD code itself does when it narrows key shares
        int m = (int)a.num("m"); need(m); ascon_masked_word_t *src = wobj((int)a.num("src")); ascon_masked_word_t *dst = a.num("src") == id ? src : wnew(id);
        // an m-share word says nothing about share slots m..MAXS-1 (e.g. after a copy into storage that
        // held something else): fill them when the plan asks
        if (a.has("dirty")) for (int k = m; k < MAXS; ++k) memset(&src->S[k], (int)a.num("dirty"), sizeof(src->S[k]));
        if (false) { }
#if MAXS >= 3
        else if (n == 2 && m == 3) ascon_masked_word_x2_from_x3(dst, src, trng());
        else if (n == 3 && m == 2) ascon_masked_word_x3_from_x2(dst, src, trng());
#endif
#if MAXS >= 4
        else if (n == 2 && m == 4) ascon_masked_word_x2_from_x4(dst, src, trng());
        else if (n == 3 && m == 4) ascon_masked_word_x3_from_x4(dst, src, trng());
        else if (n == 4 && m == 2) ascon_masked_word_x4_from_x2(dst, src, trng());
        else if (n == 4 && m == 3) ascon_masked_word_x4_from_x3(dst, src, trng());
#endif
        else fatal("bad conversion %d from %d", n, m);
    }
    else if (name == "pad") { ascon_masked_word_pad(wobj(id), size); }
    else if (name == "separator") { ascon_masked_word_separator(wobj(id)); }
    else fatal("mw.op name %s", name.c_str());
    ev.b("val", wval(n, wobj(id))).raw("raw", wraw(n, wobj(id))).raw("tape_used", tape_used_json());
    if (a.has("src") && name != "randomize") ev.b("srcval", wval((name == "from" && a.num("src") != id) ? (int)a.num("m") : n, wobj((int)a.num("src"))));
    ev.emit();
}
static void mw_free(const Args &a) { obj_del((int)a.num("obj")); }

// masked states
static ascon_masked_state_t *sobj(int id) { return (ascon_masked_state_t *)obj_get(id, "mstate").mem; }
static bytes_t sval(int n, const ascon_masked_state_t *s) { bytes_t r; for (int i = 0; i < 5; ++i) { bytes_t w = wval(n, &s->M[i]); r.insert(r.end(), w.begin(), w.end()); } return r; }
static std::string sraw(int n, const ascon_masked_state_t *s) { std::string r = "["; for (int i = 0; i < 5; ++i) { if (i) r += ","; r += wraw(n, &s->M[i]); } return r + "]"; }
static void ms_op(const Args &a) {
    int n = (int)a.num("n"); need(n); std::string name = a.str("name"); int id = (int)a.num("obj");
    settape(a);
    Ev ev("ms.op"); ev.s("name", name).n("n", n).n("obj", id).n("w64", W64).n("r", a.num("r")).n("m", a.num("m")).n("src", a.num("src")).b("data", a.hex("data"));
    if (name == "load") {          // from 40 plain bytes through an unmasked permutation state
        bytes_t d = a.hex("data"); if (d.size() != 40) fatal("ms load needs 40 bytes");
        ascon_masked_state_t *s = (ascon_masked_state_t *)obj_new(id, "mstate", sizeof(ascon_masked_state_t)).mem;
        ascon_masked_state_init(s);
        ascon_state_t x1; ascon_init(&x1); ascon_overwrite_bytes(&x1, &d[0], 0, 40); DS(n, copy_from_x1, s, &x1, trng()); ascon_free(&x1);
    } else if (name == "randomize") { ev.raw("raw_before", sraw(n, sobj(id))); DS(n, randomize, sobj(id), trng()); }
    else if (name == "permute") {
        uint64_t preserve[4]; for (int i = 0; i < 4; ++i) preserve[i] = ascon_trng_generate_64(trng());
        DS(n, permute, sobj(id), (uint8_t)a.num("r"), preserve);
    } else if (name == "to_x1") {
        ascon_state_t x1; DS(n, copy_to_x1, &x1, sobj(id)); uint8_t b[40]; ascon_extract_bytes(&x1, b, 0, 40); ascon_free(&x1); ev.b("out", b, 40);
    } else if (name == "from") {
        int m = (int)a.num("m"); need(m); ascon_masked_state_t *src = sobj((int)a.num("src"));
        bool inplace = a.num("src") == id;
        ascon_masked_state_t *dst = inplace ? src : (ascon_masked_state_t *)obj_new(id, "mstate", sizeof(ascon_masked_state_t)).mem;
        if (!inplace) ascon_masked_state_init(dst);
        if (a.has("dirty")) for (int i = 0; i < 5; ++i) for (int k = m; k < MAXS; ++k) memset(&src->M[i].S[k], (int)a.num("dirty"), sizeof(src->M[i].S[k]));
#define FROM(N, M) if (n == N && m == M) ascon_x##N##_copy_from_x##M(dst, src, trng()); else
        FROM(2, 2)
#if MAXS >= 3
        FROM(2, 3) FROM(3, 2) FROM(3, 3)
#endif
#if MAXS >= 4
        FROM(2, 4) FROM(3, 4) FROM(4, 2) FROM(4, 3) FROM(4, 4)
#endif
        fatal("bad state conversion");
        ev.b("srcval", sval(inplace ? n : m, src));
    } else if (name == "free") {
        ascon_masked_state_t *s = sobj(id); ascon_masked_state_free(s);
        if (a.num("dump_raw")) ev.n("wipe", a.num("wipe")).b("raw", (const uint8_t *)s, sizeof(*s));
        ev.emit(); obj_del(id); return;
    } else fatal("ms.op name %s", name.c_str());
    ev.b("val", sval(n, sobj(id))).raw("raw", sraw(n, sobj(id))).raw("tape_used", tape_used_json());
    ev.emit();
}

// masked keys
static void mk_op(const Args &a) {
    std::string name = a.str("name"); int id = (int)a.num("obj"); int bits = (int)a.num("bits", 128);
    settape(a);
    size_t sz = bits == 128 ? sizeof(ascon_masked_key_128_t) : sizeof(ascon_masked_key_160_t);
    size_t klen = bits == 128 ? 16 : 20; int nwords = bits == 128 ? 2 : 6;
    Ev ev("mk.op"); ev.s("name", name).n("bits", bits).n("obj", id).n("shares", ASCON_MASKED_KEY_SHARES).n("w64", W64).b("key", a.hex("key"));
    void *m;
    if (name == "init") {
        bytes_t k = a.hex("key"); if (k.size() != klen) fatal("masked key size");
        Obj &o = obj_new(id, bits == 128 ? "mkey128" : "mkey160", sz); if (a.has("junk")) memset(o.mem, (int)a.num("junk"), sz); m = o.mem;
        InBuf kb(k);
        if (bits == 128) ascon_masked_key_128_init((ascon_masked_key_128_t *)m, kb.p); else ascon_masked_key_160_init((ascon_masked_key_160_t *)m, kb.p);
    } else {
        m = obj_get(id, bits == 128 ? "mkey128" : "mkey160").mem;
        std::string before = "[";
        for (int i = 0; i < nwords; ++i) { if (i) before += ","; before += wraw(ASCON_MASKED_KEY_SHARES, (ascon_masked_word_t *)((uint8_t *)m + i * sizeof(ascon_masked_key_word_t))); }
        before += "]";
        if (name == "randomize") {
            ev.raw("raw_before", before);
            if (bits == 128) ascon_masked_key_128_randomize((ascon_masked_key_128_t *)m); else ascon_masked_key_160_randomize((ascon_masked_key_160_t *)m);
        } else if (name == "extract") { }
        else if (name == "free") {
            if (bits == 128) ascon_masked_key_128_free((ascon_masked_key_128_t *)m); else ascon_masked_key_160_free((ascon_masked_key_160_t *)m);
            if (a.num("dump_raw")) ev.n("wipe", a.num("wipe")).b("raw", (const uint8_t *)m, sz);
            ev.emit(); obj_del(id); return;
        } else fatal("mk.op name");
    }
    OutBuf out(klen, (unsigned)a.num("align"));
    if (bits == 128) ascon_masked_key_128_extract((const ascon_masked_key_128_t *)m, out.p); else ascon_masked_key_160_extract((const ascon_masked_key_160_t *)m, out.p);
    std::string raw = "[";
    for (int i = 0; i < nwords; ++i) { if (i) raw += ","; raw += wraw(ASCON_MASKED_KEY_SHARES, (ascon_masked_word_t *)((uint8_t *)m + i * sizeof(ascon_masked_key_word_t))); }
    raw += "]";
    ev.b("out", out.get(klen)).n("guard", out.guards_ok()).raw("raw", raw).raw("tape_used", tape_used_json());
    ev.emit();
}
#include <ascon/aead-masked.h>
static void mk_aead(const Args &a) {
    std::string sc = a.str("scheme"); int id = (int)a.num("obj");
    bytes_t n = a.hex("n"), ad = a.hex("ad"), m = a.hex("m");
    settape(a);
    InBuf nb(n), adb(ad), mb(m); OutBuf out(m.size() + 16); size_t clen = 0;
    void *k = obj_get(id, sc == "aead80pq" ? "mkey160" : "mkey128").mem;
    obj_protect(id, true);          // the key parameter is const: read-only for the duration of the calls
    if (sc == "aead128") ascon128_masked_aead_encrypt(out.p, &clen, mb.p, m.size(), adb.p, adb.n, nb.p, (const ascon_masked_key_128_t *)k);
    else if (sc == "aead128a") ascon128a_masked_aead_encrypt(out.p, &clen, mb.p, m.size(), adb.p, adb.n, nb.p, (const ascon_masked_key_128_t *)k);
    else ascon80pq_masked_aead_encrypt(out.p, &clen, mb.p, m.size(), adb.p, adb.n, nb.p, (const ascon_masked_key_160_t *)k);
    // the key argument is const: decrypt the packet, then a forged one (last tag byte flipped), with the same key
    // object and require the object to be bit-identical after all three calls
    size_t ksz = sc == "aead80pq" ? sizeof(ascon_masked_key_160_t) : sizeof(ascon_masked_key_128_t);
    bytes_t kraw((uint8_t *)k, (uint8_t *)k + ksz);
    bytes_t ct = out.get(m.size() + 16); OutBuf pt(m.size()), pt2(m.size()); size_t ml = 0, ml2 = 0; int r1, r2;
    InBuf cb(ct); bytes_t bad = ct; bad[bad.size() - 1] ^= 0x40; InBuf bb(bad);
    if (sc == "aead128") { r1 = ascon128_masked_aead_decrypt(pt.p, &ml, cb.p, cb.n, adb.p, adb.n, nb.p, (const ascon_masked_key_128_t *)k);
                           r2 = ascon128_masked_aead_decrypt(pt2.p, &ml2, bb.p, bb.n, adb.p, adb.n, nb.p, (const ascon_masked_key_128_t *)k); }
    else if (sc == "aead128a") { r1 = ascon128a_masked_aead_decrypt(pt.p, &ml, cb.p, cb.n, adb.p, adb.n, nb.p, (const ascon_masked_key_128_t *)k);
                                 r2 = ascon128a_masked_aead_decrypt(pt2.p, &ml2, bb.p, bb.n, adb.p, adb.n, nb.p, (const ascon_masked_key_128_t *)k); }
    else { r1 = ascon80pq_masked_aead_decrypt(pt.p, &ml, cb.p, cb.n, adb.p, adb.n, nb.p, (const ascon_masked_key_160_t *)k);
           r2 = ascon80pq_masked_aead_decrypt(pt2.p, &ml2, bb.p, bb.n, adb.p, adb.n, nb.p, (const ascon_masked_key_160_t *)k); }
    bool same = memcmp(&kraw[0], k, ksz) == 0;
    if (id < 1000) obj_protect(id, false);
    Ev ev("mk.aead"); ev.s("scheme", sc).n("obj", id).b("n", n).b("ad", ad).b("m", m).n("clen", (long long)clen).b("out", ct).n("guard", out.guards_ok() && pt.guards_ok() && pt2.guards_ok())
        .n("dec", r1 < 0 ? -1 : r1).b("pt", pt.get(m.size())).n("forged", r2 < 0 ? -1 : r2).n("key_same", same ? 1 : 0); ev.emit();
}
void reg_masked() { reg("mk.aead", mk_aead); reg("mw.op", mw_op); reg("mw.free", mw_free); reg("ms.op", ms_op); reg("mk.op", mk_op); }
