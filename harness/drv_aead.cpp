// AEAD families: ASCON-128/128a/80pq (one-shot C, incremental, masked, C++), SIV x3, ISAP x3.
#include "drv.h"
#include <ascon/aead.h>
#include <ascon/aead-masked.h>
#include <ascon/siv.h>
#include <ascon/isap.h>
#include <ascon/utility.h>

typedef void (*enc_fn)(unsigned char *, size_t *, const unsigned char *, size_t, const unsigned char *, size_t,
                       const unsigned char *, const unsigned char *);
typedef int (*dec_fn)(unsigned char *, size_t *, const unsigned char *, size_t, const unsigned char *, size_t,
                      const unsigned char *, const unsigned char *);

// --- wrappers giving every family the same signature (k = raw key bytes) -----------------------
#define ISAP_WRAP(P)                                                                                   \
    static void P##_isap_enc(unsigned char *c, size_t *clen, const unsigned char *m, size_t mlen,          \
                             const unsigned char *ad, size_t adlen, const unsigned char *n, const unsigned char *k) { \
        P##_isap_aead_key_t pk; P##_isap_aead_init(&pk, k);                                              \
        P##_isap_aead_encrypt(c, clen, m, mlen, ad, adlen, n, &pk); P##_isap_aead_free(&pk); }           \
    static int P##_isap_dec(unsigned char *m, size_t *mlen, const unsigned char *c, size_t clen,           \
                            const unsigned char *ad, size_t adlen, const unsigned char *n, const unsigned char *k) { \
        P##_isap_aead_key_t pk; P##_isap_aead_init(&pk, k);                                              \
        int r = P##_isap_aead_decrypt(m, mlen, c, clen, ad, adlen, n, &pk); P##_isap_aead_free(&pk); return r; }
ISAP_WRAP(ascon128) ISAP_WRAP(ascon128a) ISAP_WRAP(ascon80pq)

#define MASK_WRAP(P, KT)                                                                               \
    static void P##_m_enc(unsigned char *c, size_t *clen, const unsigned char *m, size_t mlen,             \
                          const unsigned char *ad, size_t adlen, const unsigned char *n, const unsigned char *k) { \
        ascon_masked_key_##KT##_t mk; ascon_masked_key_##KT##_init(&mk, k);                              \
        /* a masked key may be refreshed any number of times before it is used: 0, 1 or 2 by key parity */ \
        for (int r = 0; r < (k[0] % 3); ++r) ascon_masked_key_##KT##_randomize(&mk);                     \
        P##_masked_aead_encrypt(c, clen, m, mlen, ad, adlen, n, &mk); ascon_masked_key_##KT##_free(&mk); } \
    static int P##_m_dec(unsigned char *m, size_t *mlen, const unsigned char *c, size_t clen,              \
                         const unsigned char *ad, size_t adlen, const unsigned char *n, const unsigned char *k) { \
        ascon_masked_key_##KT##_t mk; ascon_masked_key_##KT##_init(&mk, k);                              \
        for (int j = 0; j < (k[1] % 3); ++j) ascon_masked_key_##KT##_randomize(&mk);                     \
        int r = P##_masked_aead_decrypt(m, mlen, c, clen, ad, adlen, n, &mk); ascon_masked_key_##KT##_free(&mk); return r; }
MASK_WRAP(ascon128, 128) MASK_WRAP(ascon128a, 128) MASK_WRAP(ascon80pq, 160)

// --- incremental API behind one interface -----------------------------------------------------
struct IncOps {
    size_t size;
    void (*init)(void *, const unsigned char *, const unsigned char *);
    void (*reinit)(void *, const unsigned char *, const unsigned char *);
    void (*start)(void *, const unsigned char *, size_t);
    void (*enc)(void *, const unsigned char *, unsigned char *, size_t);
    void (*encfin)(void *, unsigned char *);
    void (*dec)(void *, const unsigned char *, unsigned char *, size_t);
    int (*decfin)(void *, const unsigned char *);
    void (*free_)(void *);
    size_t klen;
};
#define INC_OPS(P, T, KL) { sizeof(T), (void (*)(void *, const unsigned char *, const unsigned char *))P##_aead_init, \
    (void (*)(void *, const unsigned char *, const unsigned char *))P##_aead_reinit,                     \
    (void (*)(void *, const unsigned char *, size_t))P##_aead_start,                                    \
    (void (*)(void *, const unsigned char *, unsigned char *, size_t))P##_aead_encrypt_block,           \
    (void (*)(void *, unsigned char *))P##_aead_encrypt_finalize,                                       \
    (void (*)(void *, const unsigned char *, unsigned char *, size_t))P##_aead_decrypt_block,           \
    (int (*)(void *, const unsigned char *))P##_aead_decrypt_finalize, (void (*)(void *))P##_aead_free, KL }
static const IncOps INC128 = INC_OPS(ascon128, ascon128_state_t, 16);
static const IncOps INC128A = INC_OPS(ascon128a, ascon128a_state_t, 16);
static const IncOps INC80PQ = INC_OPS(ascon80pq, ascon80pq_state_t, 20);

struct Scheme {
    const char *name; size_t klen;
    enc_fn enc; dec_fn dec;
    enc_fn menc; dec_fn mdec;          // masked (or 0)
    const IncOps *inc;                 // incremental (or 0)
    int cppkind;                       // index for make_cpp
};
static ascon::aead *make_cpp(int kind, const unsigned char *key, size_t klen) {
    switch (kind) {
    case 0: return new ascon::aead128(key);
    case 1: return new ascon::aead128a(key);
    case 2: return new ascon::aead80pq(key);
    case 3: return new ascon::siv128(key);
    case 4: return new ascon::siv128a(key);
    case 5: return new ascon::siv80pq(key);
    case 6: return new ascon::isap128(key, klen);
    case 7: return new ascon::isap128a(key, klen);
    case 8: return new ascon::isap80pq(key, klen);
    case 9: return new ascon::aead128_masked(key);
    case 10: return new ascon::aead128a_masked(key);
    case 11: return new ascon::aead80pq_masked(key);
    }
    return 0;
}
static const Scheme SCHEMES[] = {
    { "aead128", 16, ascon128_aead_encrypt, ascon128_aead_decrypt, ascon128_m_enc, ascon128_m_dec, &INC128, 0 },
    { "aead128a", 16, ascon128a_aead_encrypt, ascon128a_aead_decrypt, ascon128a_m_enc, ascon128a_m_dec, &INC128A, 1 },
    { "aead80pq", 20, ascon80pq_aead_encrypt, ascon80pq_aead_decrypt, ascon80pq_m_enc, ascon80pq_m_dec, &INC80PQ, 2 },
    { "siv128", 16, ascon128_siv_encrypt, ascon128_siv_decrypt, 0, 0, 0, 3 },
    { "siv128a", 16, ascon128a_siv_encrypt, ascon128a_siv_decrypt, 0, 0, 0, 4 },
    { "siv80pq", 20, ascon80pq_siv_encrypt, ascon80pq_siv_decrypt, 0, 0, 0, 5 },
    { "isap128", 16, ascon128_isap_enc, ascon128_isap_dec, 0, 0, 0, 6 },
    { "isap128a", 16, ascon128a_isap_enc, ascon128a_isap_dec, 0, 0, 0, 7 },
    { "isap80pq", 20, ascon80pq_isap_enc, ascon80pq_isap_dec, 0, 0, 0, 8 },
};
static const Scheme &scheme_of(const std::string &s) {
    for (size_t i = 0; i < sizeof(SCHEMES) / sizeof(SCHEMES[0]); ++i) if (s == SCHEMES[i].name) return SCHEMES[i];
    fatal("unknown scheme %s", s.c_str()); return SCHEMES[0];
}
const IncOps *inc_ops_of(const std::string &s) { return scheme_of(s).inc; }

static std::vector<std::string> split(const std::string &s) {
    std::vector<std::string> r; std::stringstream ss(s); std::string t;
    while (std::getline(ss, t, ',')) if (!t.empty()) r.push_back(t);
    return r;
}
static std::vector<size_t> chunking(const Args &a, size_t total) {
    // chunk sizes from the plan, clipped to the data; the remainder goes into a final chunk
    std::vector<long long> c = a.list("chunks"); std::vector<size_t> r; size_t used = 0;
    for (size_t i = 0; i < c.size(); ++i) { size_t n = (size_t)c[i]; if (n > total - used) n = total - used; r.push_back(n); used += n; }
    if (used < total || r.empty()) r.push_back(total - used);
    return r;
}

// One family's encryption.  Returns JSON for the result record.
static std::string run_enc(const Scheme &sc, const std::string &fam, const Args &a,
                           const bytes_t &k, const bytes_t &n, const bytes_t &ad, const bytes_t &m) {
    bool nie = a.num("null_if_empty") != 0; bool inplace = a.num("inplace") != 0;
    unsigned al = (unsigned)a.num("align");
    InBuf kb(k), nb(n), adb(ad, nie, al);
    OutBuf out(m.size() + 16, (unsigned)a.num("oalign"));
    InBuf mb(m, nie && !inplace, al);
    const unsigned char *mp = mb.p;
    if (inplace) { out.load(m); mp = out.p; }
    long long clen = -1;
    if (fam == "c" || fam == "masked") {
        enc_fn f = fam == "c" ? sc.enc : sc.menc;
        if (!f) fatal("family %s not available for %s", fam.c_str(), sc.name);
        size_t cl = (size_t)-1;
        f(out.p, &cl, mp, m.size(), adb.p, adb.n, nb.p, kb.p);
        clen = (long long)cl;
    } else if (fam == "inc") {
        const IncOps *io = sc.inc; if (!io) fatal("no inc for %s", sc.name);
        void *st = calloc(1, io->size);
        io->init(st, nb.p, kb.p);
        io->start(st, adb.p, adb.n);
        std::vector<size_t> ch = chunking(a, m.size()); size_t off = 0;
        for (size_t i = 0; i < ch.size(); ++i) { io->enc(st, mp + off, out.p + off, ch[i]); off += ch[i]; }
        io->encfin(st, out.p + m.size());
        io->free_(st); free(st);
        clen = (long long)m.size() + 16;
    } else if (fam == "cpp") {
        ascon::aead *c = make_cpp(sc.cppkind, kb.p, k.size());
        c->set_nonce(nb.p, n.size());
        clen = c->encrypt(out.p, mp, m.size(), adb.p, adb.n);
        delete c;
    } else if (fam == "cppm") {
        if (sc.cppkind > 2) fatal("no masked C++ class for %s", sc.name);
        ascon::aead *c = make_cpp(sc.cppkind + 9, kb.p, k.size());
        for (int r = 0; r < (k[0] % 3); ++r) static_cast<ascon::aead_masked *>(c)->randomize_key();
        c->set_nonce(nb.p, n.size());
        clen = c->encrypt(out.p, mp, m.size(), adb.p, adb.n);
        delete c;
    } else if (fam == "cppba") {
        ascon::aead *c = make_cpp(sc.cppkind, kb.p, k.size());
        c->set_nonce(nb.p, n.size());
        // a reused output array: empty, shorter than, or longer than the result
        size_t pre = (m.size() + ad.size()) % 3 == 0 ? 0 : ((m.size() + ad.size()) % 3 == 1 ? 7 : m.size() + 16 + 11);
        ascon::byte_array bm(m.begin(), m.end()), bad(ad.begin(), ad.end()), bc(pre, 0x5a);
        if (ad.empty() && a.num("ba_noad")) c->encrypt(bc, bm); else c->encrypt(bc, bm, bad);
        delete c;
        clen = (long long)bc.size();
        if (bc.size() <= out.n) memcpy(out.p, bc.data(), bc.size());
    } else fatal("unknown family %s", fam.c_str());
    Ev r("r"); r.s("fam", fam).n("clen", clen).b("ct", out.get(m.size() + 16)).n("guard", out.guards_ok());
    std::string s = r.os.str() + "}";
    return s;
}

static void aead_enc(const Args &a) {
    const Scheme &sc = scheme_of(a.str("scheme"));
    bytes_t k = a.hex("k"), n = a.hex("n"), ad = a.hex("ad"), m = a.hex("m");
    if (k.size() != sc.klen || n.size() != 16) fatal("key/nonce size");
    std::vector<std::string> fams = split(a.str("fam", "c"));
    if (a.has("tape")) tape_set_mask(a.str("tape"), a.hex("tapedata"));
    std::string res = "[";
    for (size_t i = 0; i < fams.size(); ++i) { if (i) res += ","; res += run_enc(sc, fams[i], a, k, n, ad, m); }
    res += "]";
    Ev ev("aead.enc"); ev.s("scheme", sc.name).b("k", k).b("n", n).b("ad", ad).b("m", m);
    ev.n("inplace", a.num("inplace")).l("chunks", a.list("chunks")).raw("res", res);
    ev.emit();
}

// One family's decryption of ct (ciphertext||tag, possibly forged or short).
struct DecRes { long long ret, mlen; bytes_t m; bool guard, untouched, allzero; };
static DecRes run_dec(const Scheme &sc, const std::string &fam, const Args &a,
                      const bytes_t &k, const bytes_t &n, const bytes_t &ad, const bytes_t &ct) {
    bool nie = a.num("null_if_empty") != 0; bool inplace = a.num("inplace") != 0;
    unsigned al = (unsigned)a.num("align");
    InBuf kb(k), nb(n), adb(ad, nie, al);
    size_t mcap = ct.size() >= 16 ? ct.size() - 16 : 0;
    size_t cap = inplace ? ct.size() : mcap;
    OutBuf out(cap, (unsigned)a.num("oalign"));
    InBuf cb(ct, false, al);
    const unsigned char *cp = cb.p;
    if (inplace) { out.load(ct); cp = out.p; }
    DecRes r; r.ret = 0; r.mlen = -1;
    if (fam == "c" || fam == "masked") {
        dec_fn f = fam == "c" ? sc.dec : sc.mdec;
        if (!f) fatal("family %s not available for %s", fam.c_str(), sc.name);
        size_t ml = (size_t)-1;
        r.ret = f(out.p, &ml, cp, ct.size(), adb.p, adb.n, nb.p, kb.p);
        r.mlen = ml == (size_t)-1 ? -1 : (long long)ml;
    } else if (fam == "inc") {
        const IncOps *io = sc.inc; if (!io) fatal("no inc for %s", sc.name);
        if (ct.size() < 16) { r.ret = -1; r.mlen = -1; }   // the incremental API has no short-input case
        else {
            void *st = calloc(1, io->size);
            io->init(st, nb.p, kb.p);
            io->start(st, adb.p, adb.n);
            std::vector<size_t> ch = chunking(a, mcap); size_t off = 0;
            for (size_t i = 0; i < ch.size(); ++i) { io->dec(st, cp + off, out.p + off, ch[i]); off += ch[i]; }
            unsigned char tag[16]; memcpy(tag, cp + mcap, 16);
            r.ret = io->decfin(st, tag);
            io->free_(st); free(st);
            r.mlen = (long long)mcap;
        }
    } else if (fam == "cpp" || fam == "cppm") {
        ascon::aead *c = make_cpp(sc.cppkind + (fam == "cppm" ? 9 : 0), kb.p, k.size());
        if (fam == "cppm") for (int j = 0; j < (k[1] % 3); ++j) static_cast<ascon::aead_masked *>(c)->randomize_key();
        c->set_nonce(nb.p, n.size());
        if (ct.size() >= 16) { r.ret = c->decrypt(out.p, cp, ct.size(), adb.p, adb.n); r.mlen = r.ret >= 0 ? r.ret : (long long)mcap; if (r.ret > 0) r.ret = 0; }
        else { r.ret = c->decrypt(out.p, cp, ct.size(), adb.p, adb.n); r.mlen = -1; }
        delete c;
    } else if (fam == "cppba") {
        ascon::aead *c = make_cpp(sc.cppkind, kb.p, k.size());
        c->set_nonce(nb.p, n.size());
        ascon::byte_array bc(ct.begin(), ct.end()), bad(ad.begin(), ad.end()), bm((ct.size() + ad.size()) % 2 ? ct.size() + 5 : 3, 0x77);
        bool ok = (ad.empty() && a.num("ba_noad")) ? c->decrypt(bm, bc) : c->decrypt(bm, bc, bad);
        delete c;
        r.ret = ok ? 0 : -1; r.mlen = (long long)bm.size();
        if (ok && bm.size() <= out.n && bm.size()) memcpy(out.p, bm.data(), bm.size());
        if (!ok) { r.m.clear(); r.guard = true; r.untouched = true; r.allzero = bm.size() == 0; return r; }
    } else fatal("unknown family %s", fam.c_str());
    r.guard = out.guards_ok();
    r.untouched = out.untouched(0, cap);
    r.m = out.get(mcap);
    r.allzero = true;
    for (size_t i = 0; i < r.m.size(); ++i) if (r.m[i]) r.allzero = false;
    return r;
}
static std::string decres_json(const std::string &fam, const DecRes &r, bool with_m) {
    Ev e("r"); e.s("fam", fam).n("ret", r.ret < 0 ? -1 : r.ret).n("mlen", r.mlen).n("guard", r.guard)
        .n("untouched", r.untouched).n("allzero", r.allzero);
    if (with_m) e.b("m", r.m);
    return e.os.str() + "}";
}

static void aead_dec(const Args &a) {
    const Scheme &sc = scheme_of(a.str("scheme"));
    bytes_t k = a.hex("k"), n = a.hex("n"), ad = a.hex("ad"), ct = a.hex("ct");
    std::vector<std::string> fams = split(a.str("fam", "c"));
    if (a.has("tape")) tape_set_mask(a.str("tape"), a.hex("tapedata"));
    std::string res = "[";
    for (size_t i = 0; i < fams.size(); ++i) {
        if (i) res += ",";
        res += decres_json(fams[i], run_dec(sc, fams[i], a, k, n, ad, ct), true);
    }
    res += "]";
    Ev ev("aead.dec"); ev.s("scheme", sc.name).b("k", k).b("n", n).b("ad", ad).b("ct", ct);
    ev.n("inplace", a.num("inplace")).l("chunks", a.list("chunks")).raw("res", res);
    ev.emit();
}

// Round trip + forgeries.  The driver encrypts m (C one-shot, logged so the spec can check it), then
// applies each mutation of the plan to (k, n, ad, ct) and decrypts with every family.
// mutation syntax (';' separated):  c:IDX:MASK  a:IDX:MASK  n:IDX:MASK  k:IDX:MASK  trunc:LEN  ext:HEX  set:HEX(ct)
static void aead_forge(const Args &a) {
    const Scheme &sc = scheme_of(a.str("scheme"));
    bytes_t k = a.hex("k"), n = a.hex("n"), ad = a.hex("ad"), m = a.hex("m");
    std::vector<std::string> fams = split(a.str("fam", "c"));
    if (a.has("tape")) tape_set_mask(a.str("tape"), a.hex("tapedata"));
    bytes_t ct(m.size() + 16);
    { InBuf kb(k), nb(n), adb(ad), mb(m); size_t cl = 0; sc.enc(&ct[0], &cl, mb.p, m.size(), adb.p, adb.n, nb.p, kb.p); }
    std::string muts = a.str("muts"); std::stringstream ss(muts); std::string mu;
    std::string res = "[";
    bool firstm = true;
    while (std::getline(ss, mu, ';')) {
        if (mu.empty()) continue;
        bytes_t k2 = k, n2 = n, ad2 = ad, ct2 = ct;
        std::vector<std::string> f; { std::stringstream s2(mu); std::string t; while (std::getline(s2, t, ':')) f.push_back(t); }
        std::string what = f[0];
        if (what == "c" || what == "a" || what == "n" || what == "k") {
            size_t idx = (size_t)strtoul(f[1].c_str(), 0, 0); uint8_t mask = (uint8_t)strtoul(f[2].c_str(), 0, 0);
            bytes_t &t = what == "c" ? ct2 : what == "a" ? ad2 : what == "n" ? n2 : k2;
            if (idx >= t.size() || mask == 0) fatal("bad mutation %s", mu.c_str());
            t[idx] ^= mask;
        } else if (what == "cc") {     // the same difference at two ciphertext/tag positions
            size_t i1 = (size_t)strtoul(f[1].c_str(), 0, 0), i2 = (size_t)strtoul(f[2].c_str(), 0, 0);
            uint8_t mask = (uint8_t)strtoul(f[3].c_str(), 0, 0);
            if (i1 >= ct2.size() || i2 >= ct2.size() || i1 == i2 || mask == 0) fatal("bad mutation %s", mu.c_str());
            ct2[i1] ^= mask; ct2[i2] ^= mask;
        } else if (what == "trunc") { ct2.resize((size_t)strtoul(f[1].c_str(), 0, 0)); }
        else if (what == "ext") { Args t; t.kv["x"] = f[1]; bytes_t e = t.hex("x"); ct2.insert(ct2.end(), e.begin(), e.end()); }
        else if (what == "adext") { Args t; t.kv["x"] = f[1]; bytes_t e = t.hex("x"); ad2.insert(ad2.end(), e.begin(), e.end()); }
        else if (what == "adtrunc") { ad2.resize((size_t)strtoul(f[1].c_str(), 0, 0)); }
        else if (what == "id") { }
        else fatal("bad mutation %s", mu.c_str());
        for (size_t i = 0; i < fams.size(); ++i) {
            DecRes r = run_dec(sc, fams[i], a, k2, n2, ad2, ct2);
            if (!firstm) res += ",";
            firstm = false;
            Ev e("r"); e.s("mut", mu).s("fam", fams[i]).n("ret", r.ret < 0 ? -1 : r.ret).n("mlen", r.mlen)
                .n("guard", r.guard).n("untouched", r.untouched).n("allzero", r.allzero)
                .n("same", (k2 == k && n2 == n && ad2 == ad && ct2 == ct) ? 1 : 0).n("ctlen", (long long)ct2.size())
                .n("meq", r.m == m ? 1 : 0);
            res += e.os.str() + "}";
        }
    }
    res += "]";
    Ev ev("aead.forge"); ev.s("scheme", sc.name).b("k", k).b("n", n).b("ad", ad).b("m", m).b("ct", ct);
    ev.n("inplace", a.num("inplace")).l("chunks", a.list("chunks")).raw("res", res);
    ev.emit();
}

// ---- incremental sessions as objects (C07, C14) -----------------------------------------------
static void dump_inc(Ev &ev, const IncOps *io, void *m) {
    // all three state types: { ascon_state_t state; key[klen]; nonce[16]; posn }
    uint8_t *p = (uint8_t *)m; ascon_state_t *st = (ascon_state_t *)m;
    uint8_t b[40];
    ascon_acquire(st); ascon_extract_bytes(st, b, 0, 40); ascon_release(st);
    ev.b("s40", b, 40).b("key", p + sizeof(ascon_state_t), io->klen)
      .b("nonce", p + sizeof(ascon_state_t) + io->klen, 16).n("posn", p[sizeof(ascon_state_t) + io->klen + 16]);
}
static void inc_init(const Args &a) {
    std::string sch = a.str("scheme"); const IncOps *io = inc_ops_of(sch); int id = (int)a.num("obj");
    bool re = a.num("re") != 0;
    bytes_t k = a.hex("k"), n = a.hex("n");
    bool knull = a.num("knull") != 0, nnull = a.num("nnull") != 0, nself = a.num("nself") != 0;
    void *m;
    if (re) m = obj_get(id, ("inc." + sch).c_str()).mem;
    else { Obj &o = obj_new(id, "inc." + sch, io->size); if (a.has("junk")) memset(o.mem, (int)a.num("junk"), o.size); m = o.mem; }
    InBuf kb(k), nb(n);
    const unsigned char *np = nnull ? 0 : nb.p;
    if (nself) np = (uint8_t *)m + sizeof(ascon_state_t) + io->klen;   // npub == state->nonce: keep the current nonce
    if (re) io->reinit(m, np, knull ? 0 : kb.p); else io->init(m, np, knull ? 0 : kb.p);
    Ev ev("inc.init"); ev.s("scheme", sch).n("obj", id).n("re", re).b("k", k).b("n", n).n("knull", knull).n("nnull", nnull).n("nself", nself);
    dump_inc(ev, io, m); ev.emit();
}
static void inc_start(const Args &a) {
    std::string sch = a.str("scheme"); const IncOps *io = inc_ops_of(sch); int id = (int)a.num("obj");
    void *m = obj_get(id, ("inc." + sch).c_str()).mem;
    bytes_t ad = a.hex("ad"); InBuf adb(ad, a.num("null_if_empty") != 0, (unsigned)a.num("align"));
    io->start(m, adb.p, adb.n);
    Ev ev("inc.start"); ev.s("scheme", sch).n("obj", id).b("ad", ad); dump_inc(ev, io, m); ev.emit();
}
static void inc_block(const Args &a) {
    std::string sch = a.str("scheme"); const IncOps *io = inc_ops_of(sch); int id = (int)a.num("obj");
    void *m = obj_get(id, ("inc." + sch).c_str()).mem;
    bool dec = a.op == "inc.dec"; bool inplace = a.num("inplace") != 0;
    bytes_t d = a.hex("in");
    OutBuf out(d.size(), (unsigned)a.num("oalign"));
    InBuf in(d, a.num("null_if_empty") != 0 && !inplace, (unsigned)a.num("align"));
    const unsigned char *ip = in.p;
    if (inplace) { out.load(d); ip = out.p; }
    if (dec) io->dec(m, ip, out.p, d.size()); else io->enc(m, ip, out.p, d.size());
    reg_store(a, out.get(d.size()));
    Ev ev(a.op); ev.s("scheme", sch).n("obj", id).b("in", d).n("inplace", inplace).b("out", out.get(d.size())).n("guard", out.guards_ok());
    dump_inc(ev, io, m); ev.emit();
}
static void inc_encfin(const Args &a) {
    std::string sch = a.str("scheme"); const IncOps *io = inc_ops_of(sch); int id = (int)a.num("obj");
    void *m = obj_get(id, ("inc." + sch).c_str()).mem;
    OutBuf out(16, (unsigned)a.num("oalign"));
    io->encfin(m, out.p);
    reg_store(a, out.get(16));
    Ev ev("inc.encfin"); ev.s("scheme", sch).n("obj", id).b("out", out.get(16)).n("guard", out.guards_ok()); dump_inc(ev, io, m); ev.emit();
}
static void inc_decfin(const Args &a) {
    std::string sch = a.str("scheme"); const IncOps *io = inc_ops_of(sch); int id = (int)a.num("obj");
    void *m = obj_get(id, ("inc." + sch).c_str()).mem;
    bytes_t tag = a.hex("tag"); if (tag.size() != 16) fatal("tag size");
    InBuf tb(tag);
    int ret = io->decfin(m, tb.p);
    Ev ev("inc.decfin"); ev.s("scheme", sch).n("obj", id).b("tag", tag).n("ret", ret < 0 ? -1 : ret); dump_inc(ev, io, m); ev.emit();
}
static void inc_free(const Args &a) {
    std::string sch = a.str("scheme"); const IncOps *io = inc_ops_of(sch); int id = (int)a.num("obj");
    Obj &o = obj_get(id, ("inc." + sch).c_str());
    io->free_(o.mem);
    Ev ev("inc.free"); ev.s("scheme", sch).n("obj", id);
    if (a.num("dump_raw")) ev.n("wipe", a.num("wipe")).b("raw", (const uint8_t *)o.mem, o.size);
    ev.emit(); obj_del(id);
}

// nonce helpers
static void nonce_inc(const Args &a) {
    bytes_t n = a.hex("n"); if (n.size() != 16) fatal("nonce size");
    OutBuf b(16); b.load(n);
    long long times = a.num("times", 1);
    for (long long i = 0; i < times; ++i) ascon_aead_increment_nonce(b.p);
    Ev ev("nonce.inc"); ev.b("n", n).n("times", times).b("out", b.get(16)).n("guard", b.guards_ok()); ev.emit();
}
static void nonce_setctr(const Args &a) {
    unsigned long long c = a.unum("ctr");
    OutBuf b(16);
    ascon_aead_set_counter(b.p, (uint64_t)c);
    Ev ev("nonce.set_counter"); ev.sz("ctr", c).b("out", b.get(16)).n("guard", b.guards_ok()); ev.emit();
}

void reg_aead() {
    reg("aead.enc", aead_enc); reg("aead.dec", aead_dec); reg("aead.forge", aead_forge);
    reg("inc.init", inc_init); reg("inc.start", inc_start); reg("inc.enc", inc_block); reg("inc.dec", inc_block);
    reg("inc.encfin", inc_encfin); reg("inc.decfin", inc_decfin); reg("inc.free", inc_free);
    reg("nonce.inc", nonce_inc); reg("nonce.set_counter", nonce_setctr);
}
