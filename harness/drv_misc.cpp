// Hex codec C functions (C20) and small utilities.
#include "drv.h"
#include <ascon/utility.h>

static void hex_to(const Args &a) {
    bytes_t d = a.hex("in"); size_t space = (size_t)a.num("space"); bool up = a.num("upper") != 0;
    InBuf b(d, a.num("null_if_empty") != 0, (unsigned)a.num("align"));
    OutBuf out(space, (unsigned)a.num("oalign"));
    int ret = ascon_bytes_to_hex((char *)out.p, space, b.p, b.n, up ? 1 : 0);
    size_t w = ret >= 0 ? (size_t)ret + 1 : 0;
    Ev ev("hex.to"); ev.b("in", d).n("space", (long long)space).n("upper", up).n("ret", ret < 0 ? -1 : ret)
        .b("out", out.get(w <= space ? w : 0)).n("guard", out.guards_ok()).n("tail_untouched", out.untouched(w ? w : (space ? 1 : 0), space)); ev.emit();
}
static void hex_from(const Args &a) {
    bytes_t s = a.hex("str"); size_t space = (size_t)a.num("space");
    InBuf b(s, a.num("null_if_empty") != 0, (unsigned)a.num("align"));
    OutBuf out(space, (unsigned)a.num("oalign"));
    int ret = ascon_bytes_from_hex(out.p, space, (const char *)b.p, b.n);
    size_t w = ret >= 0 ? (size_t)ret : 0;
    Ev ev("hex.from"); ev.b("str", s).n("space", (long long)space).n("ret", ret < 0 ? -1 : ret)
        .b("out", out.get(w <= space ? w : 0)).n("guard", out.guards_ok()); ev.emit();
}
// ascon_clean(buf + off, n): exactly those bytes become zero, nothing else in the buffer changes
static void util_clean(const Args &a) {
    bytes_t d = a.hex("in"); size_t off = (size_t)a.num("off"), n = (size_t)a.num("n");
    if (off + n > d.size()) fatal("util.clean: range outside the buffer");
    OutBuf buf(d.size(), (unsigned)a.num("align")); buf.load(d);
    ascon_clean(buf.p + off, n);
    Ev ev("util.clean"); ev.b("in", d).n("off", (long long)off).n("n", (long long)n).b("out", buf.get(d.size())).n("guard", buf.guards_ok()); ev.emit();
}
void reg_misc() { reg("util.clean", util_clean); reg("hex.to", hex_to); reg("hex.from", hex_from); }
