#include "drv.h"
#if 0
void reg_kdf() {}
#endif
#if 0
void reg_isap() {}
#endif
#if 0
void reg_prng() {}
#endif
#if 0
void reg_masked() {}
#endif
#if 0
void reg_cpp() {}
#endif
#if 0
void reg_misc() {}
#endif
