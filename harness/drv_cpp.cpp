// C++ cipher objects (C14, C17, C13): every class behind ascon::aead, constructed with placement new
// in driver-owned storage so that the bytes can be inspected after the destructor.
#include "drv.h"
#include <new>
#include <ascon/aead.h>
#include <ascon/aead-masked.h>
#include <ascon/siv.h>
#include <ascon/isap.h>
#include <ascon/utility.h>

struct CppCls {
    const char *name; size_t size; size_t klen; int isap; int masked;
    ascon::aead *(*mk0)(void *);
    ascon::aead *(*mk1)(void *, const unsigned char *, size_t);
};
template <class T> static ascon::aead *mk0(void *p) { return new (p) T(); }
template <class T> static ascon::aead *mk1(void *p, const unsigned char *k, size_t) { return new (p) T(k); }
template <class T> static ascon::aead *mk1i(void *p, const unsigned char *k, size_t n) { return new (p) T(k, n); }
#define CLS(T, KL, I, M) { #T, sizeof(ascon::T), KL, I, M, mk0<ascon::T>, I ? mk1i_##T : mk1_##T }
#define DEF1(T) static ascon::aead *mk1_##T(void *p, const unsigned char *k, size_t n) { return mk1<ascon::T>(p, k, n); } \
                static ascon::aead *mk1i_##T(void *, const unsigned char *, size_t) { return 0; }
#define DEF1I(T) static ascon::aead *mk1i_##T(void *p, const unsigned char *k, size_t n) { return mk1i<ascon::T>(p, k, n); } \
                 static ascon::aead *mk1_##T(void *, const unsigned char *, size_t) { return 0; }
DEF1(aead128) DEF1(aead128a) DEF1(aead80pq) DEF1(siv128) DEF1(siv128a) DEF1(siv80pq)
DEF1(aead128_masked) DEF1(aead128a_masked) DEF1(aead80pq_masked)
DEF1I(isap128) DEF1I(isap128a) DEF1I(isap80pq)
static const CppCls CLSS[] = {
    CLS(aead128, 16, 0, 0), CLS(aead128a, 16, 0, 0), CLS(aead80pq, 20, 0, 0),
    CLS(siv128, 16, 0, 0), CLS(siv128a, 16, 0, 0), CLS(siv80pq, 20, 0, 0),
    CLS(isap128, 16, 1, 0), CLS(isap128a, 16, 1, 0), CLS(isap80pq, 20, 1, 0),
    CLS(aead128_masked, 16, 0, 1), CLS(aead128a_masked, 16, 0, 1), CLS(aead80pq_masked, 20, 0, 1),
};
static const CppCls &cls_of(const std::string &n) {
    for (size_t i = 0; i < sizeof(CLSS) / sizeof(CLSS[0]); ++i) if (n == CLSS[i].name) return CLSS[i];
    fatal("unknown C++ class %s", n.c_str()); return CLSS[0];
}
static ascon::aead *cpp_of(int id) { return (ascon::aead *)obj_get(id, "cpp.").aux; }
static std::string cls_name(int id) { return obj_get(id, "cpp.").kind.substr(4); }

static void c_new(const Args &a) {
    const CppCls &cl = cls_of(a.str("cls")); int id = (int)a.num("obj");
    Obj &o = obj_new(id, std::string("cpp.") + cl.name, cl.size);
    if (a.has("junk")) memset(o.mem, (int)a.num("junk"), o.size);
    if (a.has("tape")) tape_set_mask(a.str("tape"), a.hex("tapedata"));
    std::string how = a.str("how", "default");       // default | key | keynull
    bytes_t key = a.hex("key");
    InBuf kb(key);
    if (how == "default") o.aux = cl.mk0(o.mem);
    else if (how == "keynull") o.aux = cl.mk1(o.mem, 0, (size_t)a.num("len"));
    else o.aux = cl.mk1(o.mem, kb.p, a.has("len") ? (size_t)a.num("len") : key.size());
    ascon::aead *c = (ascon::aead *)o.aux;
    Ev ev("cpp.new"); ev.s("cls", cl.name).n("obj", id).s("how", how).b("key", key).n("len", a.has("len") ? a.num("len") : (long long)key.size());
    ev.n("key_size", (long long)c->key_size()).n("tag_size", (long long)c->tag_size()).n("nonce_size", (long long)c->nonce_size());
    ev.emit();
}
static void c_set_key(const Args &a) {
    int id = (int)a.num("obj"); ascon::aead *c = cpp_of(id);
    bytes_t key = a.hex("key"); bool keynull = a.num("keynull") != 0;
    size_t len = a.has("len") ? (size_t)a.num("len") : key.size();
    if (a.has("tape")) tape_set_mask(a.str("tape"), a.hex("tapedata"));
    InBuf kb(key);
    bool ret = c->set_key(keynull ? 0 : kb.p, len);
    Ev ev("cpp.set_key"); ev.s("cls", cls_name(id)).n("obj", id).b("key", key).n("len", (long long)len).n("keynull", keynull).n("ret", ret ? 1 : 0); ev.emit();
}
static void c_set_nonce(const Args &a) {
    int id = (int)a.num("obj"); ascon::aead *c = cpp_of(id);
    bytes_t n = a.hex("n"); InBuf nb(n, a.num("null_if_empty") != 0);
    c->set_nonce(nb.p, n.size());
    Ev ev("cpp.set_nonce"); ev.s("cls", cls_name(id)).n("obj", id).b("n", n); ev.emit();
}
static void c_set_counter(const Args &a) {
    int id = (int)a.num("obj"); ascon::aead *c = cpp_of(id);
    unsigned long long v = a.unum("ctr");
    c->set_counter((uint64_t)v);
    Ev ev("cpp.set_counter"); ev.s("cls", cls_name(id)).n("obj", id).sz("ctr", v); ev.emit();
}
static void c_enc(const Args &a) {
    int id = (int)a.num("obj"); ascon::aead *c = cpp_of(id);
    bytes_t m = a.hex("m"), ad = a.hex("ad"); std::string form = a.str("form", "ptr");
    bool nie = a.num("null_if_empty") != 0; bool inplace = a.num("inplace") != 0;
    if (a.has("tape")) tape_set_mask(a.str("tape"), a.hex("tapedata"));
    OutBuf out(m.size() + 16, (unsigned)a.num("align"));
    long long ret = 0;
    if (form == "ptr") {
        InBuf mb(m, nie && !inplace), adb(ad, nie);
        const unsigned char *mp = mb.p; if (inplace) { out.load(m); mp = out.p; }
        if (ad.empty() && a.num("noad")) ret = c->encrypt(out.p, mp, m.size());      // default arguments
        else ret = c->encrypt(out.p, mp, m.size(), adb.p, adb.n);
    } else {
        // the output array arrives with earlier contents: shorter than, or longer than, the result
        size_t pre = a.has("pre") ? (size_t)a.num("pre") : ((m.size() + ad.size()) % 2 ? m.size() + 16 + 9 : 5);
        ascon::byte_array bm(m.begin(), m.end()), bad(ad.begin(), ad.end()), bc(pre, 0x33);
        if (ad.empty() && a.num("noad")) c->encrypt(bc, bm); else c->encrypt(bc, bm, bad);
        ret = (long long)bc.size();
        if (bc.size() <= out.n && bc.size()) memcpy(out.p, bc.data(), bc.size());
    }
    reg_store(a, out.get(m.size() + 16));
    Ev ev("cpp.enc"); ev.s("cls", cls_name(id)).n("obj", id).s("form", form).b("m", m).b("ad", ad).n("ret", ret)
        .b("out", out.get(m.size() + 16)).n("guard", out.guards_ok()); ev.emit();
}
static void c_dec(const Args &a) {
    int id = (int)a.num("obj"); ascon::aead *c = cpp_of(id);
    bytes_t ct = a.hex("ct"), ad = a.hex("ad"); std::string form = a.str("form", "ptr");
    if (a.has("flip")) { size_t i = (size_t)a.num("flip"); if (i < ct.size()) ct[i] ^= (uint8_t)a.num("mask", 1); }
    if (a.has("tape")) tape_set_mask(a.str("tape"), a.hex("tapedata"));
    bool nie = a.num("null_if_empty") != 0;
    size_t cap = ct.size() >= 16 ? ct.size() - 16 : 0;
    OutBuf out(cap, (unsigned)a.num("align"));
    long long ret = 0; long long mlen = -1; bool empty_on_fail = true;
    if (form == "ptr") {
        InBuf cb(ct), adb(ad, nie);
        ret = c->decrypt(out.p, cb.p, ct.size(), adb.p, adb.n);
        mlen = ret;
    } else {
        size_t pre = a.has("pre") ? (size_t)a.num("pre") : ((ct.size() + ad.size()) % 2 ? ct.size() + 3 : 7);
        ascon::byte_array bc(ct.begin(), ct.end()), bad(ad.begin(), ad.end()), bm(pre, 0x44);
        bool ok = (ad.empty() && a.num("noad")) ? c->decrypt(bm, bc) : c->decrypt(bm, bc, bad);
        ret = ok ? (long long)bm.size() : -1; mlen = (long long)bm.size();
        empty_on_fail = ok || bm.size() == 0;
        if (ok && bm.size() <= out.n && bm.size()) memcpy(out.p, bm.data(), bm.size());
    }
    bytes_t pt = out.get(cap); bool z = true; for (size_t i = 0; i < pt.size(); ++i) if (pt[i]) z = false;
    Ev ev("cpp.dec"); ev.s("cls", cls_name(id)).n("obj", id).s("form", form).b("ct", ct).b("ad", ad).n("ret", ret < 0 ? -1 : ret)
        .n("mlen", mlen).b("out", pt).n("allzero", z).n("empty_on_fail", empty_on_fail).n("guard", out.guards_ok()); ev.emit();
}
static void c_clear(const Args &a) {
    int id = (int)a.num("obj"); cpp_of(id)->clear();
    Ev ev("cpp.clear"); ev.s("cls", cls_name(id)).n("obj", id);
    if (a.num("dump_raw")) { Obj &o = obj_get(id, "cpp."); ev.n("wipe", a.num("wipe")).b("raw", (const uint8_t *)o.mem, o.size); }
    ev.emit();
}
static void c_save_key(const Args &a) {
    int id = (int)a.num("obj"); std::string cn = cls_name(id); ascon::aead *c = cpp_of(id);
    OutBuf out(80);
    if (cn == "isap128") static_cast<ascon::isap128 *>(c)->save_key(out.p);
    else if (cn == "isap128a") static_cast<ascon::isap128a *>(c)->save_key(out.p);
    else if (cn == "isap80pq") static_cast<ascon::isap80pq *>(c)->save_key(out.p);
    else fatal("save_key on %s", cn.c_str());
    reg_store(a, out.get(80));
    Ev ev("cpp.save_key"); ev.s("cls", cn).n("obj", id).b("out", out.get(80)).n("guard", out.guards_ok()); ev.emit();
}
static void c_randomize(const Args &a) {
    int id = (int)a.num("obj"); std::string cn = cls_name(id);
    if (a.has("tape")) tape_set_mask(a.str("tape"), a.hex("tapedata"));
    ascon::aead_masked *c = dynamic_cast<ascon::aead_masked *>(cpp_of(id));
    if (!c) fatal("randomize_key on %s", cn.c_str());
    c->randomize_key();
    Ev ev("cpp.randomize_key"); ev.s("cls", cn).n("obj", id); ev.emit();
}
static void c_del(const Args &a) {
    int id = (int)a.num("obj"); Obj &o = obj_get(id, "cpp."); std::string cn = cls_name(id);
    ((ascon::aead *)o.aux)->~aead();
    Ev ev("cpp.del"); ev.s("cls", cn).n("obj", id);
    if (a.num("dump_raw")) ev.n("wipe", a.num("wipe")).b("raw", (const uint8_t *)o.mem, o.size);
    ev.emit(); obj_del(id);
}
void reg_cpp() {
    reg("cpp.new", c_new); reg("cpp.set_key", c_set_key); reg("cpp.set_nonce", c_set_nonce); reg("cpp.set_counter", c_set_counter);
    reg("cpp.enc", c_enc); reg("cpp.dec", c_dec); reg("cpp.clear", c_clear); reg("cpp.save_key", c_save_key);
    reg("cpp.randomize_key", c_randomize); reg("cpp.del", c_del);
}
