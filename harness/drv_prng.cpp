// SpongePRNG (C15).  The system source is the wrapped ascon_trng_generate (tape of [ok, 32 bytes]
// set by the plan); storage callbacks are driver functions with scripted results.
#include "drv.h"
#include <ascon/random.h>
#include <ascon/storage.h>

static void dump_prng(Ev &ev, ascon_random_state_t *st) {
    uint8_t b[40];
    ascon_acquire(&st->xof.state); ascon_extract_bytes(&st->xof.state, b, 0, 40); ascon_release(&st->xof.state);
    ev.n("count", st->xof.count).n("mode", st->xof.mode).b("s40", b, 40).n("counter", (long long)st->counter);
}
static void set_src(const Args &a) {
    // src=OK:HEX,OK:HEX,...   each entry one draw of the system source
    std::vector<std::pair<int, bytes_t> > e; std::string s = a.str("src", "");
    std::stringstream ss(s); std::string tok;
    while (std::getline(ss, tok, ',')) {
        if (tok.empty()) continue;
        size_t c = tok.find(':'); Args t; t.kv["x"] = tok.substr(c + 1);
        e.push_back(std::make_pair(atoi(tok.substr(0, c).c_str()), t.hex("x")));
    }
    tape_set_src(e);
}
// scripted storage
static thread_local size_t g_erase_size = 0;
static thread_local bytes_t g_store; static thread_local int g_rres = 32, g_wres = 32; static thread_local long g_reads = 0, g_writes = 0;
static thread_local bytes_t g_written; static thread_local int g_last_erase = -1; static thread_local size_t g_last_off = 99;
static int st_read(const ascon_storage_t *, size_t off, unsigned char *data, size_t size) {
    ++g_reads;
    if (g_rres < 0) return -1;
    size_t n = (size_t)g_rres < size ? (size_t)g_rres : size;
    for (size_t i = 0; i < n; ++i) data[i] = off + i < g_store.size() ? g_store[off + i] : 0xEE;
    return (int)n;
}
static int st_write(const ascon_storage_t *, size_t off, const unsigned char *data, size_t size, int erase) {
    ++g_writes; g_last_erase = erase; g_last_off = off;
    g_written.assign(data, data + size);
    if (g_wres < 0) return -1;
    size_t n = (size_t)g_wres < size ? (size_t)g_wres : size;
    if (g_store.size() < off + n) g_store.resize(off + n, 0xff);
    // a model of the memory: EEPROM (erase_size 0) takes any value; flash keeps old AND new unless the call erases first
    for (size_t i = 0; i < n; ++i) g_store[off + i] = (g_erase_size == 0 || erase) ? data[i] : (unsigned char)(g_store[off + i] & data[i]);
    return (int)n;
}
static ascon_random_state_t *pst(const Args &a) { return (ascon_random_state_t *)obj_get((int)a.num("obj"), "prng").mem; }

static void r_init(const Args &a) {
    int id = (int)a.num("obj"); Obj &o = obj_new(id, "prng", sizeof(ascon_random_state_t));
    if (a.has("junk")) memset(o.mem, (int)a.num("junk"), o.size);
    set_src(a); tape_reset_counters();
    int ret = ascon_random_init((ascon_random_state_t *)o.mem);
    Ev ev("prng.init"); ev.n("obj", id).n("ret", ret != 0).raw("draws", src_log_json()); dump_prng(ev, (ascon_random_state_t *)o.mem); ev.emit();
}
static void r_fetch(const Args &a) {
    ascon_random_state_t *st = pst(a); size_t n = (size_t)a.num("n");
    if (a.has("src")) set_src(a);
    OutBuf out(n, (unsigned)a.num("align"));
    ascon_random_fetch(st, out.p, n);
    Ev ev("prng.fetch"); ev.n("obj", a.num("obj")).n("n", (long long)n);
    if (n <= 600) ev.b("out", out.get(n)); else { ev.b("out", bytes_t()).b("head", out.get(64)).b("tail", bytes_t(out.p + n - 64, out.p + n)); }
    ev.n("guard", out.guards_ok()).raw("draws", src_log_json()); dump_prng(ev, st); ev.emit();
}
static void r_feed(const Args &a) {
    ascon_random_state_t *st = pst(a); bytes_t d = a.hex("in"); InBuf b(d, a.num("null_if_empty") != 0);
    ascon_random_feed(st, b.p, b.n);
    Ev ev("prng.feed"); ev.n("obj", a.num("obj")).b("in", d).raw("draws", src_log_json()); dump_prng(ev, st); ev.emit();
}
static void r_reseed(const Args &a) {
    ascon_random_state_t *st = pst(a); if (a.has("src")) set_src(a);
    int ret = ascon_random_reseed(st);
    Ev ev("prng.reseed"); ev.n("obj", a.num("obj")).n("ret", ret != 0).raw("draws", src_log_json()); dump_prng(ev, st); ev.emit();
}
static void r_poke(const Args &a) {      // position the byte counter (documented struct field)
    ascon_random_state_t *st = pst(a); st->counter = (uint32_t)a.num("counter");
    Ev ev("prng.poke"); ev.n("obj", a.num("obj")); dump_prng(ev, st); ev.emit();
}
static void fill_storage(ascon_storage_t &s, const Args &a) {
    memset(&s, 0, sizeof s);
    s.page_size = (size_t)a.num("page", 1); s.erase_size = (size_t)a.num("erase_size", 0); s.address = 0; s.size = (size_t)a.num("size", 64);
    s.partial_writes = (int)a.num("partial", 0); s.read = st_read; s.write = st_write; g_erase_size = s.erase_size;
    g_rres = (int)a.num("rres", 32); g_wres = (int)a.num("wres", 32);
    if (a.has("content")) g_store = a.hex("content");
    g_reads = g_writes = 0; g_written.clear(); g_last_erase = -1; g_last_off = 99;
}
static void r_save(const Args &a) {
    ascon_random_state_t *st = pst(a); if (a.has("src")) set_src(a);
    ascon_storage_t s; fill_storage(s, a);
    int ret = ascon_random_save_seed(st, &s);
    Ev ev("prng.save"); ev.n("obj", a.num("obj")).n("size", (long long)s.size).n("wres", g_wres).n("ret", ret).b("written", g_written)
        .n("writes", g_writes).n("reads", g_reads).n("woff", (long long)g_last_off).raw("draws", src_log_json());
    // what the memory holds afterwards (a restart reads this back)
    ev.b("stored", bytes_t(g_store.begin(), g_store.begin() + (g_store.size() < 32 ? g_store.size() : 32))); dump_prng(ev, st); ev.emit();
}
static void r_load(const Args &a) {
    ascon_random_state_t *st = pst(a); if (a.has("src")) set_src(a);
    ascon_storage_t s; fill_storage(s, a);
    bytes_t content = g_store;
    int ret = ascon_random_load_seed(st, &s);
    bytes_t rb; for (size_t i = 0; i < 32 && (int)i < g_rres; ++i) rb.push_back(i < content.size() ? content[i] : 0xEE);
    Ev ev("prng.load"); ev.n("obj", a.num("obj")).n("size", (long long)s.size).n("rres", g_rres).n("wres", g_wres).n("ret", ret).b("rbytes", rb)
        .b("written", g_written).n("writes", g_writes).n("reads", g_reads).raw("draws", src_log_json());
    ev.b("stored", bytes_t(g_store.begin(), g_store.begin() + (g_store.size() < 32 ? g_store.size() : 32))); dump_prng(ev, st); ev.emit();
}
static void r_null(const Args &a) {
    // the documented NULL-state conveniences
    ascon_storage_t s; fill_storage(s, a);
    set_src(a);
    int i0 = ascon_random_init(0);
    int r0 = ascon_random_reseed(0);
    ascon_random_feed(0, (const unsigned char *)"x", 1);
    ascon_random_free(0);
    int s0 = ascon_random_save_seed(0, &s), l0 = ascon_random_load_seed(0, &s);
    Ev ev("prng.null"); ev.n("init", i0).n("reseed", r0).n("save", s0).n("load", l0).raw("draws", src_log_json()); ev.emit();
}
static void r_global(const Args &a) {
    size_t n = (size_t)a.num("n"); set_src(a);
    OutBuf out(n, (unsigned)a.num("align"));
    int ret = a.num("via_fetch") ? (ascon_random_fetch(0, out.p, n), -7) : ascon_random(out.p, n);
    Ev ev("prng.global"); ev.sz("n", n).n("via_fetch", a.num("via_fetch")).n("ret", ret).b("out", out.get(n)).n("guard", out.guards_ok()).raw("draws", src_log_json()); ev.emit();
}
static void r_free(const Args &a) {
    int id = (int)a.num("obj"); Obj &o = obj_get(id, "prng");
    ascon_random_free((ascon_random_state_t *)o.mem);
    Ev ev("prng.free"); ev.n("obj", id).n("counter", (long long)((ascon_random_state_t *)o.mem)->counter);
    if (a.num("dump_raw")) ev.n("wipe", a.num("wipe")).b("raw", (const uint8_t *)o.mem, o.size);
    ev.emit(); obj_del(id);
}
void reg_prng() {
    reg("prng.init", r_init); reg("prng.fetch", r_fetch); reg("prng.feed", r_feed); reg("prng.reseed", r_reseed);
    reg("prng.poke", r_poke); reg("prng.save", r_save); reg("prng.load", r_load); reg("prng.null", r_null);
    reg("prng.global", r_global); reg("prng.free", r_free);
}
