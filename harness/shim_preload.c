// LD_PRELOAD fault-injection shim for the command-line tools (C19).
//   SHIM_OP   = open | read | write | close | unlink | getrandom      operation to disturb
//   SHIM_K    = k        the k-th call of that operation (1-based; read/write/close count only fds >= 3)
//   SHIM_KIND = eio | enospc | short | eintr | zero
//       eio/enospc: return -1 with that errno (and keep failing afterwards for write)
//       short     : transfer half of the request once, then -1/ENOSPC on later writes (read: then EOF)
//       eintr     : fail once with EINTR, then behave normally (a correct tool must NOT fail)
//       burst     : write only - the k-th call takes a third of the request, the next one half of its request, no
//                   error at all (a pipe that takes what fits); a correct tool must NOT fail and must lose nothing
//       zero      : getrandom only - succeed but deliver nothing (treated as failure: -1/EIO)
//   SHIM_LOG  = file     append one line per intercepted call: "op fd len -> ret"
#define _GNU_SOURCE
#include <dlfcn.h>
#include <errno.h>
#include <fcntl.h>
#include <stdarg.h>
#include <stdio.h>
#include <stdlib.h>
#include <string.h>
#include <unistd.h>
#include <sys/types.h>

static int g_init = 0, g_k = 0, g_count = 0, g_tripped = 0;
static const char *g_op = "", *g_kind = "";
static int g_log = -1;
static ssize_t (*real_read)(int, void *, size_t);
static ssize_t (*real_write)(int, const void *, size_t);
static int (*real_close)(int);
static int (*real_unlink)(const char *);
static int (*real_open)(const char *, int, ...);
static ssize_t (*real_getrandom)(void *, size_t, unsigned);

static void init(void) {
    if (g_init) return;
    g_init = 1;
    real_read = dlsym(RTLD_NEXT, "read"); real_write = dlsym(RTLD_NEXT, "write");
    real_close = dlsym(RTLD_NEXT, "close"); real_unlink = dlsym(RTLD_NEXT, "unlink");
    real_open = dlsym(RTLD_NEXT, "open"); real_getrandom = dlsym(RTLD_NEXT, "getrandom");
    const char *s;
    if ((s = getenv("SHIM_OP"))) g_op = s;
    if ((s = getenv("SHIM_K"))) g_k = atoi(s);
    if ((s = getenv("SHIM_KIND"))) g_kind = s;
    if ((s = getenv("SHIM_LOG"))) g_log = real_open(s, O_WRONLY | O_CREAT | O_APPEND, 0600);
}
static void logline(const char *op, int fd, long len, long ret) {
    if (g_log < 0) return;
    char b[128]; int n = snprintf(b, sizeof b, "%s %d %ld -> %ld\n", op, fd, len, ret);
    real_write(g_log, b, (size_t)n);
}
static int hit(const char *op) {           // is this call the one to disturb?
    if (strcmp(op, g_op) != 0) return 0;
    ++g_count;
    return g_count == g_k;
}
ssize_t read(int fd, void *buf, size_t len) {
    init();
    if (fd >= 3 && fd != g_log) {
        if (g_tripped && !strcmp(g_op, "read") && !strcmp(g_kind, "short")) { logline("read", fd, (long)len, 0); return 0; }
        if (hit("read")) {
            g_tripped = 1;
            if (!strcmp(g_kind, "eintr")) { logline("read", fd, (long)len, -4); errno = EINTR; return -1; }
            if (!strcmp(g_kind, "short")) { ssize_t r = real_read(fd, buf, len / 2); logline("read", fd, (long)len, (long)r); return r; }
            logline("read", fd, (long)len, -5); errno = EIO; return -1;
        }
    }
    ssize_t r = real_read(fd, buf, len);
    if (fd >= 3 && fd != g_log) logline("read", fd, (long)len, (long)r);
    return r;
}
ssize_t write(int fd, const void *buf, size_t len) {
    init();
    if (fd >= 3 && fd != g_log) {
        if (g_tripped && !strcmp(g_op, "write") && strcmp(g_kind, "eintr") != 0) { logline("write", fd, (long)len, -28); errno = ENOSPC; return -1; }
        if (!strcmp(g_kind, "burst") && !strcmp(g_op, "write")) {
            ++g_count;
            if ((g_count == g_k || g_count == g_k + 1) && len > 1) {
                size_t part = g_count == g_k ? len / 3 : len / 2; if (part == 0) part = 1;
                ssize_t r = real_write(fd, buf, part); logline("write", fd, (long)len, (long)r); return r;
            }
        } else
        if (hit("write")) {
            g_tripped = 1;
            if (!strcmp(g_kind, "eintr")) { logline("write", fd, (long)len, -4); errno = EINTR; return -1; }
            if (!strcmp(g_kind, "short") && len > 1) { ssize_t r = real_write(fd, buf, len / 2); logline("write", fd, (long)len, (long)r); return r; }
            logline("write", fd, (long)len, -28); errno = !strcmp(g_kind, "eio") ? EIO : ENOSPC; return -1;
        }
    }
    ssize_t r = real_write(fd, buf, len);
    if (fd >= 3 && fd != g_log) logline("write", fd, (long)len, (long)r);
    return r;
}
int open(const char *path, int flags, ...) {
    init();
    mode_t mode = 0;
    if (flags & O_CREAT) { va_list ap; va_start(ap, flags); mode = (mode_t)va_arg(ap, int); va_end(ap); }
    if (strncmp(path, "/proc", 5) && strncmp(path, "/sys", 4) && strncmp(path, "/etc", 4) && strncmp(path, "/usr", 4) && strncmp(path, "/lib", 4)) {
        if (hit("open")) { logline("open", -1, 0, -13); errno = EACCES; return -1; }
    }
    int r = real_open(path, flags, mode);
    logline("open", r, flags, r);
    return r;
}
int open64(const char *path, int flags, ...) {
    mode_t mode = 0;
    if (flags & O_CREAT) { va_list ap; va_start(ap, flags); mode = (mode_t)va_arg(ap, int); va_end(ap); }
    return open(path, flags, mode);
}
int close(int fd) { init(); int r = real_close(fd); if (fd >= 3 && fd != g_log) logline("close", fd, 0, r); return r; }
int unlink(const char *path) { init(); int r = real_unlink(path); logline("unlink", -1, 0, r); return r; }
ssize_t getrandom(void *buf, size_t len, unsigned flags) {
    init();
    if (hit("getrandom")) {
        if (!strcmp(g_kind, "eintr")) { logline("getrandom", -1, (long)len, -4); errno = EINTR; return -1; }
        logline("getrandom", -1, (long)len, -5); errno = EIO; return -1;
    }
    if (g_tripped == 0 && !strcmp(g_op, "getrandom") && g_count > g_k && !strcmp(g_kind, "eio")) { errno = EIO; return -1; }
    ssize_t r = real_getrandom(buf, len, flags);
    logline("getrandom", -1, (long)len, (long)r);
    return r;
}
