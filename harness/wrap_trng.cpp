// Link-time substitution of the system entropy source and the masking RNG
// (-Wl,--wrap=ascon_trng_generate,--wrap=ascon_trng_generate_64,--wrap=ascon_trng_generate_32).
// The wrappers serve tapes set by the plan and log what they hand out.
#include "drv.h"
#include <errno.h>
#include <string.h>
#include <sys/types.h>
#include <valgrind/memcheck.h>
extern bool g_taint_tape; bool g_taint_src = false;
extern "C" {
struct ascon_trng_state_s;
int __real_ascon_trng_generate(unsigned char *out, size_t outlen);
}
static thread_local std::string g_mask_mode = "zero";
static thread_local bytes_t g_mask_data; static thread_local size_t g_mask_pos = 0;
static thread_local uint64_t g_lcg = 0x9E3779B97F4A7C15ULL;
static thread_local std::vector<std::pair<int, bytes_t> > g_src; static thread_local size_t g_src_pos = 0;
static thread_local long long g_src_calls = 0, g_mask_calls = 0;
static thread_local std::vector<uint64_t> g_used;
static thread_local std::string g_src_log;
static thread_local bool g_src_active = false;
static thread_local bool g_src_fail = false;     // tape modes "F<mode>": the system source reports failure (and delivers zeros) while the masks follow <mode>

void tape_set_mask(const std::string &mode0, const bytes_t &data) {
    std::string mode = mode0; g_src_fail = !mode.empty() && mode[0] == 'F'; if (g_src_fail) mode = mode.substr(1);
    g_mask_mode = mode; g_mask_data = data; g_mask_pos = 0;
    uint64_t seed = 0; for (size_t i = 0; i < data.size() && i < 8; ++i) seed = (seed << 8) | data[i];
    g_lcg = seed ? seed : 0x9E3779B97F4A7C15ULL;
}
void tape_set_src(const std::vector<std::pair<int, bytes_t> > &e) { g_src = e; g_src_pos = 0; g_src_active = true; }
long long tape_src_calls() { return g_src_calls; }
long long tape_mask_calls() { long long r = g_mask_calls; g_mask_calls = 0; return r; }
void tape_reset_counters() { g_src_calls = 0; g_mask_calls = 0; g_used.clear(); g_src_log.clear(); }
void tape_reset_all() { tape_reset_counters(); g_src_fail = false; g_src.clear(); g_src_pos = 0; g_src_active = false; }
std::string src_log_json() { std::string r = "[" + g_src_log + "]"; g_src_log.clear(); return r; }
#ifdef DRV_SYSRNG
static thread_local std::string g_sys_log_fwd;
#endif
void sys_draws_flush();
std::string tape_used_json() {
    std::ostringstream os; os << "[";
    for (size_t i = 0; i < g_used.size(); ++i) {
        if (i) os << ",";
        uint64_t v = g_used[i];
        os << "[" << ((v >> 48) & 0xffff) << "," << ((v >> 32) & 0xffff) << "," << ((v >> 16) & 0xffff) << "," << (v & 0xffff) << "]";
    }
    os << "]"; g_used.clear(); return os.str();
}
static uint64_t next_mask() {
    uint64_t v;
    if (g_mask_mode == "zero") v = 0;
    else if (g_mask_mode == "ones") v = ~(uint64_t)0;
    else if (g_mask_mode == "const") { v = 0; for (size_t i = 0; i < 8; ++i) v = (v << 8) | (i < g_mask_data.size() ? g_mask_data[i] : 0); }
    else if (g_mask_mode == "alt") { v = (g_mask_pos++ & 1) ? 0xAAAAAAAAAAAAAAAAULL : 0x5555555555555555ULL; }
    else if (g_mask_mode == "list") {       // cycle through 8-byte big-endian values
        v = 0; size_t nv = g_mask_data.size() / 8; if (!nv) return 0;
        size_t i = (g_mask_pos++ % nv) * 8; for (size_t j = 0; j < 8; ++j) v = (v << 8) | g_mask_data[i + j];
    } else { // "rand": xorshift64*
        g_lcg ^= g_lcg >> 12; g_lcg ^= g_lcg << 25; g_lcg ^= g_lcg >> 27; v = g_lcg * 0x2545F4914F6CDD1DULL;
    }
    ++g_mask_calls;
    if (g_used.size() < 4096) g_used.push_back(v);
    return v;
}
extern "C" {
uint64_t __wrap_ascon_trng_generate_64(void *state) { (void)state; uint64_t v = next_mask(); if (g_taint_tape) (void)VALGRIND_MAKE_MEM_UNDEFINED(&v, sizeof v); return v; }
uint32_t __wrap_ascon_trng_generate_32(void *state) { (void)state; uint32_t v = (uint32_t)next_mask(); if (g_taint_tape) (void)VALGRIND_MAKE_MEM_UNDEFINED(&v, sizeof v); return v; }
#ifdef DRV_SYSRNG
// flavour sysrng: the library's own ascon_trng_generate (src/random/ascon-trng-dev-random.c) runs; the tape is served
// one level below, by getrandom().  Each draw is logged with what the system call was scripted to do.
static thread_local int g_sys_ok = -1; static thread_local bytes_t g_sys_bytes; static thread_local int g_sys_calls = 0;
static thread_local bool g_eintr_pending = false;
static thread_local std::string g_sys_log;
ssize_t __wrap_getrandom(void *buf, size_t len, unsigned flags) {
    (void)flags; ++g_sys_calls;
    int ok = 0; bytes_t b;
    if (!g_src_active) { ok = 1; for (size_t i = 0; i < len; ++i) b.push_back((unsigned char)(0x11 * (i + 1) + g_src_calls)); }
    else if (g_src_pos < g_src.size()) {
        ok = g_src[g_src_pos].first; b = g_src[g_src_pos].second;
        if ((ok == 2 || ok == 3) && !g_eintr_pending) { g_eintr_pending = true; errno = ok == 2 ? EINTR : EAGAIN; return -1; }      // interrupted / not ready once, then served
        g_eintr_pending = false; ++g_src_pos; if (ok == 2 || ok == 3) ok = 1;
    }
    if (ok == 4) {      // a short count: only the scripted bytes (at least one, fewer than asked) are delivered; the next entry follows
        size_t n = b.size() < 1 ? 1 : b.size(); if (n >= len) n = len > 1 ? len - 1 : len;
        b.resize(n, 0); memcpy(buf, &b[0], n); g_sys_ok = 4; g_sys_bytes = b; return (ssize_t)n;
    }
    g_sys_ok = ok; g_sys_bytes = b; g_sys_bytes.resize(len, 0);
    if (!ok) { errno = ENOSYS; return -1; }
    memcpy(buf, &g_sys_bytes[0], len);
    return (ssize_t)len;
}
int __wrap_ascon_trng_generate(unsigned char *out, size_t outlen) {
    ++g_src_calls; g_sys_ok = -1; g_sys_calls = 0;
    int ok = __real_ascon_trng_generate(out, outlen);
    std::ostringstream os, sy;
    if (!g_src_log.empty()) os << ",";
    os << "{\"ok\":" << (ok ? 1 : 0) << ",\"n\":" << outlen << ",\"bytes\":[";
    for (size_t i = 0; i < outlen; ++i) { if (i) os << ","; os << (unsigned)out[i]; }
    os << "]}";
    g_src_log += os.str();
    if (!g_sys_log.empty()) sy << ",";
    sy << "{\"ok\":" << (ok ? 1 : 0) << ",\"bytes\":[";
    for (size_t i = 0; i < outlen; ++i) { if (i) sy << ","; sy << (unsigned)out[i]; }
    sy << "],\"sysok\":" << g_sys_ok << ",\"syscalls\":" << g_sys_calls << ",\"sysbytes\":[";
    for (size_t i = 0; i < g_sys_bytes.size() && g_sys_ok >= 0; ++i) { if (i) sy << ","; sy << (unsigned)g_sys_bytes[i]; }
    sy << "]}";
    g_sys_log += sy.str();
    if (g_taint_src) (void)VALGRIND_MAKE_MEM_UNDEFINED(out, outlen);
    return ok;
}
#define __wrap_ascon_trng_generate __unused_wrap_ascon_trng_generate
#endif
int __wrap_ascon_trng_generate(unsigned char *out, size_t outlen) {
    ++g_src_calls;
    if (g_src_fail) { memset(out, 0, outlen); return 0; }
    if (!g_src_active) {            // no tape installed: deterministic filler, reported healthy
        for (size_t i = 0; i < outlen; ++i) out[i] = (unsigned char)(0x11 * (i + 1) + g_src_calls);
        if (g_taint_src) (void)VALGRIND_MAKE_MEM_UNDEFINED(out, outlen);
        return 1;
    }
    int ok = 0; bytes_t b;
    if (g_src_pos < g_src.size()) { ok = g_src[g_src_pos].first ? 1 : 0; b = g_src[g_src_pos].second; ++g_src_pos; }     // 2 (interrupted once) is healthy at this level
    for (size_t i = 0; i < outlen; ++i) out[i] = i < b.size() ? b[i] : 0;
    std::ostringstream os;
    if (!g_src_log.empty()) os << ",";
    os << "{\"ok\":" << ok << ",\"n\":" << outlen << ",\"bytes\":[";
    for (size_t i = 0; i < outlen; ++i) { if (i) os << ","; os << (unsigned)out[i]; }
    os << "]}";
    g_src_log += os.str();
    if (g_taint_src) (void)VALGRIND_MAKE_MEM_UNDEFINED(out, outlen);
    return ok;
}
}

#ifdef DRV_SYSRNG
void sys_draws_flush() { if (g_sys_log.empty()) return; Ev ev("sys.draws"); ev.raw("draws", "[" + g_sys_log + "]"); g_sys_log.clear(); ev.emit(); }
#else
void sys_draws_flush() {}
#endif
