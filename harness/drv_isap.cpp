// ISAP pre-computed key objects (C06): init / load / save / encrypt / decrypt / free.
// Every event logs the saved (canonical) form of the key and whether the raw bytes of the
// key object are bit-identical before and after the call.
#include "drv.h"
#include <ascon/isap.h>

struct IsapOps {
    const char *name; size_t klen, size;
    void (*init)(void *, const unsigned char *);
    void (*load)(void *, const unsigned char *);
    void (*save)(void *, unsigned char *);
    void (*free_)(void *);
    void (*enc)(unsigned char *, size_t *, const unsigned char *, size_t, const unsigned char *, size_t, const unsigned char *, const void *);
    int (*dec)(unsigned char *, size_t *, const unsigned char *, size_t, const unsigned char *, size_t, const unsigned char *, const void *);
};
#define OPS(P, KL) { #P, KL, sizeof(P##_isap_aead_key_t), (void (*)(void *, const unsigned char *))P##_isap_aead_init, \
    (void (*)(void *, const unsigned char *))P##_isap_aead_load_key, (void (*)(void *, unsigned char *))P##_isap_aead_save_key, \
    (void (*)(void *))P##_isap_aead_free, \
    (void (*)(unsigned char *, size_t *, const unsigned char *, size_t, const unsigned char *, size_t, const unsigned char *, const void *))P##_isap_aead_encrypt, \
    (int (*)(unsigned char *, size_t *, const unsigned char *, size_t, const unsigned char *, size_t, const unsigned char *, const void *))P##_isap_aead_decrypt }
static const IsapOps ISAPS[] = { OPS(ascon128, 16), OPS(ascon128a, 16), OPS(ascon80pq, 20) };
static const IsapOps &ops_of(const std::string &s) {
    if (s == "isap128") return ISAPS[0];
    if (s == "isap128a") return ISAPS[1];
    if (s == "isap80pq") return ISAPS[2];
    fatal("isap scheme %s", s.c_str()); return ISAPS[0];
}
static void log_key(Ev &ev, const IsapOps &io, void *m, const bytes_t &raw_before) {
    unsigned char saved[ASCON_ISAP_SAVED_KEY_SIZE];
    bytes_t raw_mid((uint8_t *)m, (uint8_t *)m + io.size);
    io.save(m, saved);
    bytes_t raw_after((uint8_t *)m, (uint8_t *)m + io.size);
    ev.b("saved", saved, sizeof saved);
    // raw_same: the call under test left the object bit-identical; save_same: so did save_key
    ev.n("raw_same", raw_before.empty() ? 1 : (raw_before == raw_mid ? 1 : 0)).n("save_same", raw_mid == raw_after ? 1 : 0);
}
static void ik_init(const Args &a) {
    std::string sc = a.str("scheme"); const IsapOps &io = ops_of(sc); int id = (int)a.num("obj");
    // re=1: a new key is installed in the SAME object (same address), as an application re-keying does
    Obj &o = (a.num("re") && obj_exists(id)) ? obj_get(id, ("isapkey." + sc).c_str()) : obj_new(id, "isapkey." + sc, io.size);
    if (a.has("junk")) memset(o.mem, (int)a.num("junk"), o.size);
    bytes_t k = a.hex("k"); if (k.size() != io.klen) fatal("isap key size");
    InBuf kb(k);
    io.init(o.mem, kb.p);
    Ev ev("isapkey.init"); ev.s("scheme", sc).n("obj", id).b("k", k); log_key(ev, io, o.mem, bytes_t()); ev.emit();
}
static void ik_load(const Args &a) {
    std::string sc = a.str("scheme"); const IsapOps &io = ops_of(sc); int id = (int)a.num("obj");
    Obj &o = (a.num("re") && obj_exists(id)) ? obj_get(id, ("isapkey." + sc).c_str()) : obj_new(id, "isapkey." + sc, io.size);
    if (a.has("junk")) memset(o.mem, (int)a.num("junk"), o.size);
    bytes_t sv = a.hex("saved"); if (sv.size() != 80) fatal("saved key size");
    InBuf sb(sv);
    io.load(o.mem, sb.p);
    Ev ev("isapkey.load"); ev.s("scheme", sc).n("obj", id).b("in", sv); log_key(ev, io, o.mem, bytes_t()); ev.emit();
}
static void ik_save(const Args &a) {
    std::string sc = a.str("scheme"); const IsapOps &io = ops_of(sc); int id = (int)a.num("obj");
    void *m = obj_get(id, ("isapkey." + sc).c_str()).mem;
    OutBuf out(80, (unsigned)a.num("align"));
    bytes_t before((uint8_t *)m, (uint8_t *)m + io.size);
    io.save(m, out.p);
    reg_store(a, out.get(80));
    Ev ev("isapkey.save"); ev.s("scheme", sc).n("obj", id).b("out", out.get(80)).n("guard", out.guards_ok());
    log_key(ev, io, m, before); ev.emit();
}
static void ik_crypt(const Args &a) {
    std::string sc = a.str("scheme"); const IsapOps &io = ops_of(sc); int id = (int)a.num("obj");
    void *m = obj_get(id, ("isapkey." + sc).c_str()).mem;
    bool dec = a.op == "isapkey.dec"; bool nie = a.num("null_if_empty") != 0; bool inplace = a.num("inplace") != 0;
    bytes_t n = a.hex("n"), ad = a.hex("ad"), in = a.hex("in");
    InBuf nb(n), adb(ad, nie);
    bytes_t before((uint8_t *)m, (uint8_t *)m + io.size);
    obj_protect(id, true);          // the pre-computed key is a const parameter of encrypt and decrypt
    if (!dec) {
        OutBuf out(in.size() + 16, (unsigned)a.num("align"));
        InBuf ib(in, nie && !inplace); const unsigned char *ip = ib.p;
        if (inplace) { out.load(in); ip = out.p; }
        size_t clen = (size_t)-1;
        io.enc(out.p, &clen, ip, in.size(), adb.p, adb.n, nb.p, m);
        if (id < 1000) obj_protect(id, false);
        reg_store(a, out.get(in.size() + 16));
        Ev ev("isapkey.enc"); ev.s("scheme", sc).n("obj", id).b("n", n).b("ad", ad).b("in", in).n("clen", (long long)clen)
            .b("out", out.get(in.size() + 16)).n("guard", out.guards_ok());
        log_key(ev, io, m, before); ev.emit();
    } else {
        size_t cap = in.size() >= 16 ? in.size() - 16 : 0;
        OutBuf out(inplace ? in.size() : cap, (unsigned)a.num("align"));
        InBuf ib(in); const unsigned char *ip = ib.p;
        if (inplace) { out.load(in); ip = out.p; }
        size_t mlen = (size_t)-1;
        int ret = io.dec(out.p, &mlen, ip, in.size(), adb.p, adb.n, nb.p, m);
        if (id < 1000) obj_protect(id, false);
        bytes_t pt = out.get(cap); bool z = true; for (size_t i = 0; i < pt.size(); ++i) if (pt[i]) z = false;
        Ev ev("isapkey.dec"); ev.s("scheme", sc).n("obj", id).b("n", n).b("ad", ad).b("in", in).n("ret", ret < 0 ? -1 : ret)
            .n("mlen", mlen == (size_t)-1 ? -1 : (long long)mlen).b("out", pt).n("allzero", z).n("guard", out.guards_ok());
        log_key(ev, io, m, before); ev.emit();
    }
}
static void ik_free(const Args &a) {
    std::string sc = a.str("scheme"); const IsapOps &io = ops_of(sc); int id = (int)a.num("obj");
    Obj &o = obj_get(id, ("isapkey." + sc).c_str());
    io.free_(o.mem);
    Ev ev("isapkey.free"); ev.s("scheme", sc).n("obj", id);
    if (a.num("dump_raw")) ev.n("wipe", a.num("wipe")).b("raw", (const uint8_t *)o.mem, o.size);
    ev.emit(); obj_del(id);
}
void reg_isap() {
    reg("isapkey.init", ik_init); reg("isapkey.load", ik_load); reg("isapkey.save", ik_save);
    reg("isapkey.enc", ik_crypt); reg("isapkey.dec", ik_crypt); reg("isapkey.free", ik_free);
}
