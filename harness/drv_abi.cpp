// ABI check for the host assembly (C18): the permutation entry points are called through an
// assembly trampoline that plants sentinels in every callee-saved register and compares the stack
// pointer; the state sits between the object canaries of the driver.
#include "drv.h"
extern "C" {
#include "masking/ascon-masked-state.h"
long tramp64(void *fn, void *a0, long a1, void *a2, unsigned long *report);
void ascon_backend_free(ascon_state_t *state) __attribute__((weak));      // only the assembly back end defines it
}
#if defined(__x86_64__)
static const unsigned long SENT[6] = { 0x1b1b1b1b1b1b1b1bUL, 0x2525252525252525UL, 0x3d3d3d3d3d3d3d3dUL, 0x4e4e4e4e4e4e4e4eUL, 0x5757575757575757UL, 0x6a6a6a6a6a6a6a6aUL };
static void abi_op(const Args &a) {
    std::string fn = a.str("fn"); int r = (int)a.num("r"); bytes_t d = a.hex("data");
    if (d.size() != 40) fatal("asm.abi needs 40 bytes");
    unsigned long rep[7]; memset(rep, 0, sizeof rep);
    uint8_t out[40];
    if (fn == "free") {
        // ascon_backend_free(state): wipes scratch registers; callee-saved registers, the stack pointer and the state stay
        if (!ascon_backend_free) fatal("this build has no ascon_backend_free");
        Obj &o = obj_new(900, "perm", sizeof(ascon_state_t)); ascon_state_t *st = (ascon_state_t *)o.mem;
        ascon_init(st); ascon_overwrite_bytes(st, &d[0], 0, 40);
        tramp64((void *)ascon_backend_free, st, 0, 0, rep);
        ascon_extract_bytes(st, out, 0, 40); ascon_free(st); obj_del(900);
        bool regs = true; for (int i = 0; i < 6; ++i) if (rep[i] != SENT[i]) regs = false;
        Ev ev("asm.free"); ev.s("arch", "x86-64").n("regs", regs).n("sp", rep[6] == 0).n("guard", memcmp(out, &d[0], 40) == 0 ? 1 : 0); ev.emit();
        return;
    }
    if (fn == "permute") {
        Obj &o = obj_new(900, "perm", sizeof(ascon_state_t)); ascon_state_t *st = (ascon_state_t *)o.mem;
        ascon_init(st); ascon_overwrite_bytes(st, &d[0], 0, 40);
        tramp64((void *)ascon_permute, st, r, 0, rep);
        ascon_extract_bytes(st, out, 0, 40); ascon_free(st); obj_del(900);
    } else {
        int n = fn == "x2" ? 2 : fn == "x3" ? 3 : 4;
        if (n > ASCON_MASKED_MAX_SHARES) fatal("share count");
        Obj &o = obj_new(900, "mstate", sizeof(ascon_masked_state_t)); ascon_masked_state_t *ms = (ascon_masked_state_t *)o.mem;
        ascon_trng_state_t trng; ascon_trng_init(&trng);
        ascon_state_t x1; ascon_init(&x1); ascon_overwrite_bytes(&x1, &d[0], 0, 40);
        uint64_t preserve[4] = { 1, 2, 3, 4 };
        ascon_masked_state_init(ms);
        if (n == 2) { ascon_x2_copy_from_x1(ms, &x1, &trng); ascon_free(&x1); tramp64((void *)ascon_x2_permute, ms, r, preserve, rep); ascon_x2_copy_to_x1(&x1, ms); }
#if ASCON_MASKED_MAX_SHARES >= 3
        else if (n == 3) { ascon_x3_copy_from_x1(ms, &x1, &trng); ascon_free(&x1); tramp64((void *)ascon_x3_permute, ms, r, preserve, rep); ascon_x3_copy_to_x1(&x1, ms); }
#endif
#if ASCON_MASKED_MAX_SHARES >= 4
        else { ascon_x4_copy_from_x1(ms, &x1, &trng); ascon_free(&x1); tramp64((void *)ascon_x4_permute, ms, r, preserve, rep); ascon_x4_copy_to_x1(&x1, ms); }
#endif
        ascon_extract_bytes(&x1, out, 0, 40); ascon_free(&x1); ascon_trng_free(&trng); obj_del(900);
    }
    bool regs = true; for (int i = 0; i < 6; ++i) if (rep[i] != SENT[i]) regs = false;
    Ev ev("asm.permute"); ev.s("arch", "x86-64").s("fn", fn).n("r", r).b("in", d).b("out", out, 40).n("regs", regs).n("sp", rep[6] == 0).n("guard", 1); ev.emit();
}
void reg_abi() { reg("asm.abi", abi_op); }
#else
void reg_abi() {}
#endif
