// drv: plan interpreter.  usage: drv <plan> <trace-out>
// Plan line:  op key=value ...   values: integers, hex strings ("-" = empty), comma lists.
#include "drv.h"
#include <stdarg.h>
#include <signal.h>
#include <unistd.h>
#include <exception>
#include <sys/mman.h>

static thread_local FILE *g_out = 0;
static thread_local int g_outfd = -1;
static std::map<std::string, handler_t> g_handlers;
static thread_local std::map<int, Obj> g_objs;
static thread_local long g_line = 0;
// objects with id >= 1000 are created by the main thread before "threads.begin" and are shared
// read-only by all worker threads (C16)
static std::map<int, Obj> g_shared;
static bool g_in_prologue = true;

static thread_local std::map<std::string, bytes_t> g_regs;
void reg_store(const Args &a, const bytes_t &v) {
    // save=NAME sets register NAME, save=NAME+ appends to it
    if (!a.has("save")) return;
    std::string n = a.str("save");
    if (!n.empty() && n[n.size() - 1] == '+') { n.erase(n.size() - 1); bytes_t &r = g_regs[n]; r.insert(r.end(), v.begin(), v.end()); }
    else g_regs[n] = v;
}
bytes_t Args::hex(const char *k) const {
    bytes_t r;
    std::map<std::string, std::string>::const_iterator it = kv.find(k);
    if (it == kv.end() || it->second == "-") return r;
    const std::string &s = it->second;
    if (!s.empty() && s[0] == '@') {          // @NAME or @NAME:off:len  (register written by an earlier op)
        std::string n = s.substr(1); size_t off = 0, len = (size_t)-1;
        size_t c1 = n.find(':');
        if (c1 != std::string::npos) {
            size_t c2 = n.find(':', c1 + 1);
            off = (size_t)strtoul(n.substr(c1 + 1).c_str(), 0, 0);
            if (c2 != std::string::npos) len = (size_t)strtoul(n.substr(c2 + 1).c_str(), 0, 0);
            n = n.substr(0, c1);
        }
        if (!g_regs.count(n)) fatal("no register %s", n.c_str());
        const bytes_t &v = g_regs[n];
        if (off > v.size()) off = v.size();
        if (len > v.size() - off) len = v.size() - off;
        return bytes_t(v.begin() + off, v.begin() + off + len);
    }
    if (s.size() % 2) fatal("odd hex for %s", k);
    for (size_t i = 0; i + 1 < s.size(); i += 2) {
        char t[3] = { s[i], s[i + 1], 0 };
        r.push_back((uint8_t)strtoul(t, 0, 16));
    }
    return r;
}
std::vector<long long> Args::list(const char *k) const {
    std::vector<long long> r;
    std::map<std::string, std::string>::const_iterator it = kv.find(k);
    if (it == kv.end() || it->second == "-" || it->second.empty()) return r;
    std::stringstream ss(it->second); std::string tok;
    while (std::getline(ss, tok, ',')) r.push_back(strtoll(tok.c_str(), 0, 0));
    return r;
}

Ev &Ev::s(const char *k, const std::string &v) {
    key(k); os << "\"";
    for (size_t i = 0; i < v.size(); ++i) {
        unsigned char c = (unsigned char)v[i];
        if (c == '"' || c == '\\') os << '\\' << c;
        else if (c < 32 || c > 126) { char t[8]; snprintf(t, sizeof t, "\\u%04x", c); os << t; }
        else os << c;
    }
    os << "\""; return *this;
}
Ev &Ev::b(const char *k, const uint8_t *p, size_t len) {
    key(k); os << "[";
    for (size_t i = 0; i < len; ++i) { if (i) os << ","; os << (unsigned)p[i]; }
    os << "]"; return *this;
}
Ev &Ev::sz(const char *k, unsigned long long v) {
    key(k);
    os << "[" << ((v >> 48) & 0xffff) << "," << ((v >> 32) & 0xffff) << ","
       << ((v >> 16) & 0xffff) << "," << (v & 0xffff) << "]";
    return *this;
}
Ev &Ev::l(const char *k, const std::vector<long long> &v) {
    key(k); os << "[";
    for (size_t i = 0; i < v.size(); ++i) { if (i) os << ","; os << v[i]; }
    os << "]"; return *this;
}
void Ev::emit() {
    os << "}\n";
    std::string s = os.str();
    fwrite(s.data(), 1, s.size(), g_out);
    fflush(g_out);
}

#ifdef DRV_ASAN
InBuf::InBuf(const bytes_t &v, bool null_if_empty, unsigned align) : mem(0), p(0), n(v.size()), maplen(0) {
    if (n == 0 && null_if_empty) return;
    // exact-size allocation whose END coincides with the end of the data (AddressSanitizer sees an over-read)
    mem = (uint8_t *)malloc(n + align + (n + align == 0 ? 1 : 0));
    if (!mem) fatal("oom");
    p = mem + align;
    if (n) memcpy(p, &v[0], n);
}
InBuf::~InBuf() { free(mem); }
#else
// Inputs are const for the library: they live in pages that are READ-ONLY while the call runs (a write through a
// cast-away const faults even if it is undone before the call returns) and end at an inaccessible guard page
// (an over-read of more than the alignment slack faults).
InBuf::InBuf(const bytes_t &v, bool null_if_empty, unsigned align) : mem(0), p(0), n(v.size()), maplen(0) {
    if (n == 0 && null_if_empty) return;
    size_t pg = 4096, data = ((n + 8 + pg - 1) / pg) * pg;
    maplen = data + pg;
    mem = (uint8_t *)mmap(0, maplen, PROT_READ | PROT_WRITE, MAP_PRIVATE | MAP_ANONYMOUS, -1, 0);
    if (mem == (uint8_t *)MAP_FAILED) fatal("mmap");
    uint8_t *end = mem + data;
    p = end - n; p -= ((uintptr_t)p - align) & 7;          // p % 8 == align % 8, at most 7 bytes of slack before the guard page
    memset(mem, 0xEE, data);
    if (n) memcpy(p, &v[0], n);
    mprotect(mem + data, pg, PROT_NONE);
    mprotect(mem, data, PROT_READ);
}
InBuf::~InBuf() { if (mem) munmap(mem, maplen); }
#endif

// Every other output buffer that was not asked for a particular alignment is "tight": its last byte is the last
// accessible byte (the end of the heap block under AddressSanitizer, the byte before an inaccessible page
// otherwise), so that a load or store past the documented size faults even when it puts back the value it read -
// a canary cannot see that, and another thread's object may live there.  The others keep the trailing canary
// zone, which contains an overrun and lets the run go on.
static thread_local unsigned g_outbuf_seq = 0;
static thread_local int g_outbuf_force = -1;     // plan argument tight=1 / tight=0 on a line overrides the alternation for that line
OutBuf::OutBuf(size_t n_, unsigned align_) : n(n_), align(align_), tight(false), maplen(0) {
    tight = n > 0 && (g_outbuf_force == 1 || (g_outbuf_force < 0 && align == 0 && (++g_outbuf_seq & 1)));
    if (tight) {
#ifdef DRV_ASAN
        mem = (uint8_t *)malloc(GUARD + n);
        if (!mem) fatal("oom");
        p = mem + GUARD;
#else
        size_t pg = 4096, data = ((n + GUARD + pg - 1) / pg) * pg;
        maplen = data + pg;
        mem = (uint8_t *)mmap(0, maplen, PROT_READ | PROT_WRITE, MAP_PRIVATE | MAP_ANONYMOUS, -1, 0);
        if (mem == (uint8_t *)MAP_FAILED) fatal("mmap");
        mprotect(mem + data, pg, PROT_NONE);
        p = mem + data - n;
#endif
        memset(p - GUARD, 0xA5, GUARD);
        for (size_t i = 0; i < n; ++i) p[i] = fill(i);
        return;
    }
    mem = (uint8_t *)malloc(n + 2 * GUARD + align);
    if (!mem) fatal("oom");
    memset(mem, 0xA5, GUARD + align);
    p = mem + GUARD + align;
    for (size_t i = 0; i < n; ++i) p[i] = fill(i);
    memset(p + n, 0x5A, GUARD);
}
OutBuf::~OutBuf() { if (maplen) munmap(mem, maplen); else free(mem); }
// set once a canary next to an output buffer or object has been found overwritten: from then on the
// process image cannot be trusted, and a later harness error is the library's doing, not the plan's
bool g_memory_corrupted = false;
bool OutBuf::guards_ok() const {
    if (tight) {
        for (size_t i = 1; i <= GUARD; ++i) if (p[-(ptrdiff_t)i] != 0xA5) { g_memory_corrupted = true; return false; }
        return true;
    }
    for (size_t i = 0; i < GUARD + align; ++i) if (mem[i] != 0xA5) { g_memory_corrupted = true; return false; }
    for (size_t i = 0; i < GUARD; ++i) if (p[n + i] != 0x5A) { g_memory_corrupted = true; return false; }
    return true;
}
bool OutBuf::untouched(size_t from, size_t to) const {
    for (size_t i = from; i < to && i < n; ++i) if (p[i] != fill(i)) return false;
    return true;
}

// Objects live between two 64-byte canary zones; the zones are checked after every plan line and
// when the object is deleted, so that a stray write next to an object (also one made by assembly
// code, which no sanitizer instruments) becomes a Fault event.
enum { OBJ_GUARD = 64 };
static void canary_fault(int id, const char *where) {
    char buf[200];
    int n = snprintf(buf, sizeof buf, "{\"e\":\"Fault\",\"kind\":\"canary\",\"obj\":%d,\"where\":\"%s\",\"line\":%ld}\n", id, where, g_line);
    if (g_out) { fwrite(buf, 1, (size_t)n, g_out); fflush(g_out); }
    _exit(3);
}
static void obj_check(int id, const Obj &o) {
    const uint8_t *base = (const uint8_t *)o.mem - OBJ_GUARD;
    for (size_t i = 0; i < OBJ_GUARD; ++i) if (base[i] != 0xA7) canary_fault(id, "before");
    size_t padded = (o.size + 7) & ~(size_t)7;      // the object may legitimately be padded to its alignment
    for (size_t i = padded; i < padded + OBJ_GUARD; ++i) if (((const uint8_t *)o.mem)[i] != 0xA7) canary_fault(id, "after");
}
void obj_check_all() {
    for (std::map<int, Obj>::iterator it = g_objs.begin(); it != g_objs.end(); ++it) obj_check(it->first, it->second);
}
Obj &obj_new(int id, const std::string &kind, size_t size) {
    if (id >= 1000 && !g_in_prologue) fatal("shared object %d can only be created in the prologue", id);
    std::map<int, Obj> &g_objs = id >= 1000 ? g_shared : ::g_objs;
    if (g_objs.count(id)) obj_del(id);
    Obj o; o.kind = kind; o.size = size;
    size_t padded = (size + 7) & ~(size_t)7;
    // [canary][object, 64-byte aligned][canary] at the start of its own pages, so that the object can be made read-only
    // while the library is only allowed to read it (obj_protect); an inaccessible page follows
    size_t pg = 4096, data = ((padded + 2 * OBJ_GUARD + pg - 1) / pg) * pg;
    uint8_t *raw = (uint8_t *)mmap(0, data + pg, PROT_READ | PROT_WRITE, MAP_PRIVATE | MAP_ANONYMOUS, -1, 0);
    if (raw == (uint8_t *)MAP_FAILED) fatal("mmap");
    mprotect(raw + data, pg, PROT_NONE);
    memset(raw, 0xA7, padded + 2 * OBJ_GUARD);
    o.mem = raw + OBJ_GUARD; o.map = raw; o.maplen = data + pg;
    memset(o.mem, 0, size);
    g_objs[id] = o;
    return g_objs[id];
}
void obj_protect(int id, bool readonly) {
    std::map<int, Obj> &g_objs = id >= 1000 ? g_shared : ::g_objs;
    std::map<int, Obj>::iterator it = g_objs.find(id);
    if (it == g_objs.end() || !it->second.map) return;
    mprotect(it->second.map, it->second.maplen - 4096, readonly ? PROT_READ : (PROT_READ | PROT_WRITE));
}
bool obj_exists(int id) { return g_objs.count(id) != 0; }
Obj &obj_get(int id, const char *kind_prefix) {
    std::map<int, Obj> &g_objs = id >= 1000 ? g_shared : ::g_objs;
    std::map<int, Obj>::iterator it = g_objs.find(id);
    if (it == g_objs.end()) fatal("no object %d", id);
    if (kind_prefix && it->second.kind.compare(0, strlen(kind_prefix), kind_prefix) != 0)
        fatal("object %d is %s, wanted %s", id, it->second.kind.c_str(), kind_prefix);
    return it->second;
}
void obj_del(int id) {
    std::map<int, Obj> &g_objs = id >= 1000 ? g_shared : ::g_objs;
    std::map<int, Obj>::iterator it = g_objs.find(id);
    if (it == g_objs.end()) return;
    obj_check(id, it->second);
    munmap(it->second.map, it->second.maplen);
    g_objs.erase(it);
}
void obj_reset_all() {
    while (!g_objs.empty()) obj_del(g_objs.begin()->first);
}

void reg(const char *op, handler_t h) { g_handlers[op] = h; }

void fatal(const char *fmt, ...) {
    char buf[512]; va_list ap; va_start(ap, fmt); vsnprintf(buf, sizeof buf, fmt, ap); va_end(ap);
    fprintf(stderr, "drv: plan line %ld: %s\n", g_line, buf);
    if (g_memory_corrupted) {
        // the plan was well-formed when it was read; a canary failure came first
        if (g_out) { fprintf(g_out, "{\"e\":\"Fault\",\"kind\":\"harness state destroyed after a canary failure\",\"line\":%ld}\n", g_line); fflush(g_out); }
        _exit(96);
    }
    // a harness error, not a library fault
    if (g_out) { fprintf(g_out, "{\"e\":\"HarnessError\",\"line\":%ld}\n", g_line); fflush(g_out); }
    _exit(4);
}

static void fault_line(const char *kind) {
    char buf[160];
    int n = snprintf(buf, sizeof buf, "{\"e\":\"Fault\",\"kind\":\"%s\",\"line\":%ld}\n", kind, g_line);
    if (g_out) fflush(g_out);
    if (g_outfd >= 0 && n > 0) { ssize_t w = write(g_outfd, buf, (size_t)n); (void)w; }
}
static void on_signal(int sig) {
    const char *k = sig == SIGSEGV ? "segv" : sig == SIGBUS ? "bus" : sig == SIGABRT ? "abort" :
                    sig == SIGFPE ? "fpe" : sig == SIGILL ? "ill" : "signal";
    fault_line(k);
    _exit(3);
}
static void on_terminate() { fault_line("terminate"); _exit(3); }
extern "C" void drv_sanitizer_death(void) { fault_line("sanitizer"); }
#ifdef DRV_ASAN
extern "C" void __sanitizer_set_death_callback(void (*)(void));
#endif

void sys_draws_flush() __attribute__((weak));      // defined in wrap_trng.cpp (absent from the extra drivers)
void tape_reset_all() __attribute__((weak));      // wrap_trng.cpp
// a case starts from nothing: no objects, no registers, no entropy tape and no unread log of earlier draws
static void h_reset(const Args &) { obj_reset_all(); g_regs.clear(); if (tape_reset_all) tape_reset_all(); Ev("Reset").emit(); }

static void run_line(const std::string &s, long lineno) {
    g_line = lineno;
    if (s.empty() || s[0] == '#') return;
    std::stringstream ss(s);
    Args a; ss >> a.op;
    std::string tok;
    while (ss >> tok) {
        size_t eq = tok.find('=');
        if (eq == std::string::npos) fatal("bad token %s", tok.c_str());
        a.kv[tok.substr(0, eq)] = tok.substr(eq + 1);
    }
    std::map<std::string, handler_t>::iterator it = g_handlers.find(a.op);
    if (it == g_handlers.end()) fatal("unknown op %s", a.op.c_str());
    g_outbuf_force = a.has("tight") ? (int)a.num("tight") : -1;
    it->second(a);
    g_outbuf_force = -1;
    if (sys_draws_flush) sys_draws_flush();
    obj_check_all();
}
#include <pthread.h>
struct ThreadArg { const std::vector<std::string> *lines; size_t begin; int repeat; std::string out; std::string prologue; pthread_barrier_t *bar; };
static void *thread_main(void *p) {
    ThreadArg *ta = (ThreadArg *)p;
    g_out = fopen(ta->out.c_str(), "w"); g_outfd = fileno(g_out);
    fwrite(ta->prologue.data(), 1, ta->prologue.size(), g_out);     // the shared prologue, so each trace is self-contained
    pthread_barrier_wait(ta->bar);
    for (int r = 0; r < ta->repeat; ++r)
        for (size_t i = ta->begin; i < ta->lines->size(); ++i) run_line((*ta->lines)[i], (long)i + 1);
    obj_reset_all();
    fclose(g_out);
    return 0;
}
static void run_threads(const std::vector<std::string> &lines, size_t begin, int n, int repeat, const char *outbase) {
    std::string prologue;
    { FILE *f = fopen(outbase, "r"); char buf[4096]; size_t k; while (f && (k = fread(buf, 1, sizeof buf, f)) > 0) prologue.append(buf, k); if (f) fclose(f); }
    pthread_barrier_t bar; pthread_barrier_init(&bar, 0, (unsigned)n);
    std::vector<pthread_t> th(n); std::vector<ThreadArg> ta(n);
    for (int i = 0; i < n; ++i) {
        char nm[600]; snprintf(nm, sizeof nm, "%s.t%d", outbase, i);
        ta[i].lines = &lines; ta[i].begin = begin; ta[i].repeat = repeat; ta[i].out = nm; ta[i].prologue = prologue; ta[i].bar = &bar;
        pthread_create(&th[i], 0, thread_main, &ta[i]);
    }
    for (int i = 0; i < n; ++i) pthread_join(th[i], 0);
}
// shared objects are only ever passed as const arguments by the threads: their bytes after the threads have
// finished must be the bytes they had when the threads started (a write that no sanitizer sees - assembly,
// a cast-away const on a failure path - still shows here)
static std::map<int, bytes_t> g_shared_snapshot;
static void snapshot_shared() {
    for (std::map<int, Obj>::iterator it = g_shared.begin(); it != g_shared.end(); ++it)
        g_shared_snapshot[it->first] = bytes_t((uint8_t *)it->second.mem, (uint8_t *)it->second.mem + it->second.size);
}
static void compare_shared(const char *outbase) {
    char nm[600]; snprintf(nm, sizeof nm, "%s.shared", outbase);       // a trace of its own: thread traces stay identical texts
    FILE *f = fopen(nm, "w"); if (!f) return;
    fprintf(f, "{\"e\":\"Reset\"}\n");
    for (std::map<int, Obj>::iterator it = g_shared.begin(); it != g_shared.end(); ++it) {
        const bytes_t &b = g_shared_snapshot[it->first];
        bool same = b.size() == it->second.size && memcmp(&b[0], it->second.mem, b.size()) == 0;
        fprintf(f, "{\"e\":\"shared.const\",\"obj\":%d,\"kind\":\"%s\",\"same\":%d}\n", it->first, it->second.kind.c_str(), same ? 1 : 0);
    }
    fclose(f);
}
int main(int argc, char **argv) {
    if (argc < 3) { fprintf(stderr, "usage: drv <plan> <trace> [threads [repeat]]\n"); return 2; }
    FILE *in = strcmp(argv[1], "-") ? fopen(argv[1], "r") : stdin;
    if (!in) { perror(argv[1]); return 2; }
    g_out = fopen(argv[2], "w");
    if (!g_out) { perror(argv[2]); return 2; }
    g_outfd = fileno(g_out);
    signal(SIGSEGV, on_signal); signal(SIGBUS, on_signal); signal(SIGABRT, on_signal);
    signal(SIGFPE, on_signal); signal(SIGILL, on_signal);
    std::set_terminate(on_terminate);
#ifdef DRV_ASAN
    __sanitizer_set_death_callback(drv_sanitizer_death);
#endif
    reg("reset", h_reset);
#ifdef DRV_EXTRA_ONLY
    reg_extra();
#else
    reg_perm(); reg_sponge(); reg_aead(); reg_mac(); reg_kdf(); reg_isap(); reg_prng();
    reg_masked(); reg_cpp(); reg_misc(); reg_abi(); reg_ct();
#endif

    // read the whole plan
    std::vector<std::string> lines;
    { char *line = 0; size_t cap = 0; ssize_t len;
      while ((len = getline(&line, &cap, in)) > 0) {
        std::string s(line, (size_t)len);
        while (!s.empty() && (s[s.size() - 1] == '\n' || s[s.size() - 1] == '\r')) s.erase(s.size() - 1);
        lines.push_back(s);
      }
      free(line); }
    size_t begin = 0;
    for (size_t i = 0; i < lines.size(); ++i) if (lines[i] == "threads.begin") begin = i + 1;
    int nthreads = argc > 3 ? atoi(argv[3]) : 0, repeat = argc > 4 ? atoi(argv[4]) : 1;
    if (nthreads <= 0 || begin == 0) {
        g_in_prologue = false;
        for (size_t i = 0; i < lines.size(); ++i) if (lines[i] != "threads.begin") run_line(lines[i], (long)i + 1);
    } else {
        // prologue on the main thread (creates the shared objects); its events open every thread's trace
        for (size_t i = 0; i + 1 < begin; ++i) run_line(lines[i], (long)i + 1);
        fflush(g_out); g_in_prologue = false;
        snapshot_shared();
        for (std::map<int, Obj>::iterator it = g_shared.begin(); it != g_shared.end(); ++it) obj_protect(it->first, true);     // only const uses are allowed now
        run_threads(lines, begin, nthreads, repeat, argv[2]);
        for (std::map<int, Obj>::iterator it = g_shared.begin(); it != g_shared.end(); ++it) obj_protect(it->first, false);
        compare_shared(argv[2]);
    }
    obj_reset_all();
    fclose(g_out);
    return 0;
}
