// Public permutation interface (C08): every op logs the 40 canonical state bytes afterwards.
#include "drv.h"
#include <ascon/permutation.h>

static void dump40(Ev &ev, const ascon_state_t *st) {
    uint8_t b[40];
    ascon_extract_bytes(st, b, 0, 40);
    ev.b("s40", b, 40);
}
static ascon_state_t *st_of(const Args &a) { return (ascon_state_t *)obj_get((int)a.num("obj"), "perm").mem; }

static void p_init(const Args &a) {
    Obj &o = obj_new((int)a.num("obj"), "perm", sizeof(ascon_state_t));
    if (a.has("junk")) memset(o.mem, (int)a.num("junk"), sizeof(ascon_state_t));  // init must not depend on old contents
    ascon_init((ascon_state_t *)o.mem);
    Ev ev("perm.init"); ev.n("obj", a.num("obj")); dump40(ev, (ascon_state_t *)o.mem); ev.emit();
}
static void p_free(const Args &a) {
    ascon_state_t *st = st_of(a);
    ascon_free(st);
    Ev ev("perm.free"); ev.n("obj", a.num("obj"));
    if (a.num("dump_raw")) ev.n("wipe", a.num("wipe")).b("raw", (const uint8_t *)st, sizeof(ascon_state_t));
    ev.emit();
    obj_del((int)a.num("obj"));
}
static void p_add(const Args &a) {
    ascon_state_t *st = st_of(a); bytes_t d = a.hex("data");
    InBuf in(d, a.num("null_if_empty") != 0, (unsigned)a.num("align"));
    ascon_add_bytes(st, in.p, (unsigned)a.num("off"), (unsigned)d.size());
    Ev ev("perm.add"); ev.n("obj", a.num("obj")).n("off", a.num("off")).b("data", d); dump40(ev, st); ev.emit();
}
static void p_ovw(const Args &a) {
    ascon_state_t *st = st_of(a); bytes_t d = a.hex("data");
    InBuf in(d, a.num("null_if_empty") != 0, (unsigned)a.num("align"));
    ascon_overwrite_bytes(st, in.p, (unsigned)a.num("off"), (unsigned)d.size());
    Ev ev("perm.overwrite"); ev.n("obj", a.num("obj")).n("off", a.num("off")).b("data", d); dump40(ev, st); ev.emit();
}
static void p_zero(const Args &a) {
    ascon_state_t *st = st_of(a);
    ascon_overwrite_with_zeroes(st, (unsigned)a.num("off"), (unsigned)a.num("size"));
    Ev ev("perm.zero"); ev.n("obj", a.num("obj")).n("off", a.num("off")).n("size", a.num("size")); dump40(ev, st); ev.emit();
}
static void p_extract(const Args &a) {
    ascon_state_t *st = st_of(a); size_t n = (size_t)a.num("size");
    OutBuf out(n, (unsigned)a.num("align"));
    ascon_extract_bytes(st, out.p, (unsigned)a.num("off"), (unsigned)n);
    Ev ev("perm.extract"); ev.n("obj", a.num("obj")).n("off", a.num("off")).n("size", a.num("size"));
    ev.b("out", out.get(n)).n("guard", out.guards_ok()); dump40(ev, st); ev.emit();
}
static void p_extract_add(const Args &a) {
    ascon_state_t *st = st_of(a); bytes_t d = a.hex("data"); size_t n = d.size();
    InBuf in(d, false, (unsigned)a.num("align"));
    OutBuf out(n, (unsigned)a.num("oalign"));
    ascon_extract_and_add_bytes(st, in.p, out.p, (unsigned)a.num("off"), (unsigned)n);
    Ev ev("perm.extract_add"); ev.n("obj", a.num("obj")).n("off", a.num("off")).b("data", d);
    ev.b("out", out.get(n)).n("guard", out.guards_ok()); dump40(ev, st); ev.emit();
}
static void p_extract_ovw(const Args &a) {
    ascon_state_t *st = st_of(a); bytes_t d = a.hex("data"); size_t n = d.size();
    bool inplace = a.num("inplace") != 0;
    OutBuf out(n, (unsigned)a.num("oalign"));
    Ev ev("perm.extract_ovw"); ev.n("obj", a.num("obj")).n("off", a.num("off")).b("data", d).n("inplace", inplace);
    if (inplace) {
        out.load(d);
        ascon_extract_and_overwrite_bytes(st, out.p, out.p, (unsigned)a.num("off"), (unsigned)n);
    } else {
        InBuf in(d, false, (unsigned)a.num("align"));
        ascon_extract_and_overwrite_bytes(st, in.p, out.p, (unsigned)a.num("off"), (unsigned)n);
    }
    ev.b("out", out.get(n)).n("guard", out.guards_ok()); dump40(ev, st); ev.emit();
}
static void p_permute(const Args &a) {
    ascon_state_t *st = st_of(a);
    // via=macro: the convenience macros of permutation.h for 12, 8 and 6 rounds (first rounds 0, 4, 6)
    if (a.str("via") == "macro") {
        long r = (long)a.num("r");
        if (r == 0) ascon_permute12(st); else if (r == 4) ascon_permute8(st); else if (r == 6) ascon_permute6(st); else fatal("no macro for first round %ld", r);
    } else
    ascon_permute(st, (uint8_t)a.num("r"));
    Ev ev("perm.permute"); ev.n("obj", a.num("obj")).n("r", a.num("r")); dump40(ev, st); ev.emit();
}
static void p_copy(const Args &a) {
    // dest is a fresh, initialised state.  The acquire/release checker build allows one held state
    // at a time, so the source is released around the copy and plans for that build pass
    // free_src=1 or free_dst=1; on every other build acquire/release are no-ops.
    ascon_state_t *src = (ascon_state_t *)obj_get((int)a.num("src"), "perm").mem;
    ascon_release(src);
    Obj &o = obj_new((int)a.num("obj"), "perm", sizeof(ascon_state_t));
    ascon_state_t *dst = (ascon_state_t *)o.mem;
    ascon_init(dst);
    ascon_copy(dst, src);
    Ev ev("perm.copy"); ev.n("obj", a.num("obj")).n("src", a.num("src")); dump40(ev, dst);
    uint8_t b[40];
    if (a.num("free_dst")) {
        ascon_free(dst); obj_del((int)a.num("obj"));
        ascon_acquire(src); ascon_extract_bytes(src, b, 0, 40);
    } else {
        ascon_release(dst);
        ascon_acquire(src); ascon_extract_bytes(src, b, 0, 40);
        if (a.num("free_src")) { ascon_free(src); obj_del((int)a.num("src")); ascon_acquire(dst); }
    }
    ev.b("src40", b, 40).n("free_src", a.num("free_src")).n("free_dst", a.num("free_dst"));
    ev.emit();
}
static void p_setstate(const Args &a) {
    // convenience: overwrite all 40 bytes (logged as an ordinary overwrite event)
    ascon_state_t *st = st_of(a); bytes_t d = a.hex("data");
    if (d.size() != 40) fatal("perm.set needs 40 bytes");
    ascon_overwrite_bytes(st, &d[0], 0, 40);
    Ev ev("perm.overwrite"); ev.n("obj", a.num("obj")).n("off", 0).b("data", d); dump40(ev, st); ev.emit();
}
static void p_relacq(const Args &a) {
    ascon_state_t *st = st_of(a);
    ascon_release(st); ascon_acquire(st);
    Ev ev("perm.release_acquire"); ev.n("obj", a.num("obj")); dump40(ev, st); ev.emit();
}
void reg_perm() {
    reg("perm.init", p_init); reg("perm.free", p_free); reg("perm.add", p_add); reg("perm.overwrite", p_ovw);
    reg("perm.zero", p_zero); reg("perm.extract", p_extract); reg("perm.extract_add", p_extract_add);
    reg("perm.extract_ovw", p_extract_ovw); reg("perm.permute", p_permute); reg("perm.copy", p_copy);
    reg("perm.set", p_setstate); reg("perm.release_acquire", p_relacq);
}
