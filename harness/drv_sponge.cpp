// Sponge-shaped objects: XOF, XOFA, HASH, HASHA, PRF, KMAC(A), KDF(A), HMAC(A).
// All of them start with { ascon_state_t state; unsigned char count; unsigned char mode; }.
#include "drv.h"
#include <ascon/xof.h>
#include <ascon/hash.h>
#include <ascon/prf.h>
#include <ascon/kmac.h>
#include <ascon/kdf.h>
#include <ascon/hmac.h>

static void dump_sp(Ev &ev, void *mem) {
    ascon_xof_state_t *x = (ascon_xof_state_t *)mem;
    uint8_t b[40];
    ascon_acquire(&x->state);
    ascon_extract_bytes(&x->state, b, 0, 40);
    ascon_release(&x->state);
    ev.n("count", x->count).n("mode", x->mode).b("s40", b, 40);
}
static size_t sp_size(const std::string &k) {
    if (k == "xof") return sizeof(ascon_xof_state_t);
    if (k == "xofa") return sizeof(ascon_xofa_state_t);
    if (k == "hash") return sizeof(ascon_hash_state_t);
    if (k == "hasha") return sizeof(ascon_hasha_state_t);
    if (k == "prf") return sizeof(ascon_prf_state_t);
    if (k == "kmac") return sizeof(ascon_kmac_state_t);
    if (k == "kmaca") return sizeof(ascon_kmaca_state_t);
    if (k == "kdf") return sizeof(ascon_kdf_state_t);
    if (k == "kdfa") return sizeof(ascon_kdfa_state_t);
    if (k == "hmac") return sizeof(ascon_hmac_state_t);
    if (k == "hmaca") return sizeof(ascon_hmaca_state_t);
    fatal("unknown sponge kind %s", k.c_str()); return 0;
}
static std::string kind_of(const Args &a) { return a.str("kind"); }

// function name argument: hex bytes, or "null" for a NULL pointer
struct NameArg {
    std::string s; bool isnull;
    explicit NameArg(const Args &a) : isnull(a.str("name", "null") == "null") {
        if (!isnull) { bytes_t b = a.hex("name"); s.assign(b.begin(), b.end()); }
    }
    const char *ptr() const { return isnull ? 0 : s.c_str(); }
    bytes_t bytes() const { return bytes_t(s.begin(), s.end()); }
};

static void sp_init(const Args &a) {
    std::string k = kind_of(a); int id = (int)a.num("obj"); bool re = a.num("re") != 0;
    std::string var = a.str("variant", "plain");
    unsigned long long outlen = a.unum("outlen");
    bytes_t key = a.hex("key"), custom = a.hex("custom");
    NameArg name(a);
    void *m;
    if (re) m = obj_get(id, k.c_str()).mem;
    else {
        Obj &o = obj_new(id, k, sp_size(k));
        if (a.has("junk")) memset(o.mem, (int)a.num("junk"), o.size);
        m = o.mem;
    }
    InBuf kb(key, a.num("null_if_empty") != 0), cb(custom, a.num("null_if_empty") != 0);
    if (k == "xof") {
        ascon_xof_state_t *s = (ascon_xof_state_t *)m;
        if (var == "plain") re ? ascon_xof_reinit(s) : ascon_xof_init(s);
        else if (var == "fixed") re ? ascon_xof_reinit_fixed(s, (size_t)outlen) : ascon_xof_init_fixed(s, (size_t)outlen);
        else re ? ascon_xof_reinit_custom(s, name.ptr(), cb.p, cb.n, (size_t)outlen)
                : ascon_xof_init_custom(s, name.ptr(), cb.p, cb.n, (size_t)outlen);
    } else if (k == "xofa") {
        ascon_xofa_state_t *s = (ascon_xofa_state_t *)m;
        if (var == "plain") re ? ascon_xofa_reinit(s) : ascon_xofa_init(s);
        else if (var == "fixed") re ? ascon_xofa_reinit_fixed(s, (size_t)outlen) : ascon_xofa_init_fixed(s, (size_t)outlen);
        else re ? ascon_xofa_reinit_custom(s, name.ptr(), cb.p, cb.n, (size_t)outlen)
                : ascon_xofa_init_custom(s, name.ptr(), cb.p, cb.n, (size_t)outlen);
    } else if (k == "hash") { re ? ascon_hash_reinit((ascon_hash_state_t *)m) : ascon_hash_init((ascon_hash_state_t *)m); }
    else if (k == "hasha") { re ? ascon_hasha_reinit((ascon_hasha_state_t *)m) : ascon_hasha_init((ascon_hasha_state_t *)m); }
    else if (k == "prf") {
        ascon_prf_state_t *s = (ascon_prf_state_t *)m;
        if (key.size() != 16) fatal("prf key");
        if (var == "plain") re ? ascon_prf_reinit(s, kb.p) : ascon_prf_init(s, kb.p);
        else re ? ascon_prf_fixed_reinit(s, kb.p, (size_t)outlen) : ascon_prf_fixed_init(s, kb.p, (size_t)outlen);
    } else if (k == "kmac") {
        re ? ascon_kmac_reinit((ascon_kmac_state_t *)m, kb.p, kb.n, cb.p, cb.n, (size_t)outlen)
           : ascon_kmac_init((ascon_kmac_state_t *)m, kb.p, kb.n, cb.p, cb.n, (size_t)outlen);
    } else if (k == "kmaca") {
        re ? ascon_kmaca_reinit((ascon_kmaca_state_t *)m, kb.p, kb.n, cb.p, cb.n, (size_t)outlen)
           : ascon_kmaca_init((ascon_kmaca_state_t *)m, kb.p, kb.n, cb.p, cb.n, (size_t)outlen);
    } else if (k == "kdf") {
        re ? ascon_kdf_reinit((ascon_kdf_state_t *)m, kb.p, kb.n, cb.p, cb.n, (size_t)outlen)
           : ascon_kdf_init((ascon_kdf_state_t *)m, kb.p, kb.n, cb.p, cb.n, (size_t)outlen);
    } else if (k == "kdfa") {
        re ? ascon_kdfa_reinit((ascon_kdfa_state_t *)m, kb.p, kb.n, cb.p, cb.n, (size_t)outlen)
           : ascon_kdfa_init((ascon_kdfa_state_t *)m, kb.p, kb.n, cb.p, cb.n, (size_t)outlen);
    } else if (k == "hmac") {
        re ? ascon_hmac_reinit((ascon_hmac_state_t *)m, kb.p, kb.n) : ascon_hmac_init((ascon_hmac_state_t *)m, kb.p, kb.n);
    } else if (k == "hmaca") {
        re ? ascon_hmaca_reinit((ascon_hmaca_state_t *)m, kb.p, kb.n) : ascon_hmaca_init((ascon_hmaca_state_t *)m, kb.p, kb.n);
    } else fatal("sp.init kind");
    Ev ev("sp.init"); ev.s("kind", k).n("obj", id).n("re", re).s("variant", var).sz("outlen", outlen);
    ev.b("key", key).b("custom", custom).b("name", name.bytes()).n("name_null", name.isnull);
    dump_sp(ev, m); ev.emit();
}

static void sp_absorb(const Args &a) {
    std::string k = kind_of(a); int id = (int)a.num("obj");
    void *m = obj_get(id, k.c_str()).mem;
    bytes_t d = a.hex("in");
    InBuf in(d, a.num("null_if_empty") != 0, (unsigned)a.num("align"));
    if (k == "xof") ascon_xof_absorb((ascon_xof_state_t *)m, in.p, in.n);
    else if (k == "xofa") ascon_xofa_absorb((ascon_xofa_state_t *)m, in.p, in.n);
    else if (k == "hash") ascon_hash_update((ascon_hash_state_t *)m, in.p, in.n);
    else if (k == "hasha") ascon_hasha_update((ascon_hasha_state_t *)m, in.p, in.n);
    else if (k == "prf") ascon_prf_absorb((ascon_prf_state_t *)m, in.p, in.n);
    else if (k == "kmac") ascon_kmac_absorb((ascon_kmac_state_t *)m, in.p, in.n);
    else if (k == "kmaca") ascon_kmaca_absorb((ascon_kmaca_state_t *)m, in.p, in.n);
    else if (k == "hmac") ascon_hmac_update((ascon_hmac_state_t *)m, in.p, in.n);
    else if (k == "hmaca") ascon_hmaca_update((ascon_hmaca_state_t *)m, in.p, in.n);
    else fatal("sp.absorb kind");
    Ev ev("sp.absorb"); ev.s("kind", k).n("obj", id).b("in", d); dump_sp(ev, m); ev.emit();
}

static void sp_squeeze(const Args &a) {
    std::string k = kind_of(a); int id = (int)a.num("obj");
    void *m = obj_get(id, k.c_str()).mem;
    size_t n = (size_t)a.num("n");
    if (k == "hash" || k == "hasha") n = 32;
    OutBuf out(n, (unsigned)a.num("align"));
    if (k == "xof") ascon_xof_squeeze((ascon_xof_state_t *)m, out.p, n);
    else if (k == "xofa") ascon_xofa_squeeze((ascon_xofa_state_t *)m, out.p, n);
    else if (k == "hash") ascon_hash_finalize((ascon_hash_state_t *)m, out.p);
    else if (k == "hasha") ascon_hasha_finalize((ascon_hasha_state_t *)m, out.p);
    else if (k == "prf") ascon_prf_squeeze((ascon_prf_state_t *)m, out.p, n);
    else if (k == "kmac") ascon_kmac_squeeze((ascon_kmac_state_t *)m, out.p, n);
    else if (k == "kmaca") ascon_kmaca_squeeze((ascon_kmaca_state_t *)m, out.p, n);
    else if (k == "kdf") ascon_kdf_squeeze((ascon_kdf_state_t *)m, out.p, n);
    else if (k == "kdfa") ascon_kdfa_squeeze((ascon_kdfa_state_t *)m, out.p, n);
    else fatal("sp.squeeze kind");
    reg_store(a, out.get(n));
    Ev ev("sp.squeeze"); ev.s("kind", k).n("obj", id).n("n", (long long)n).b("out", out.get(n)).n("guard", out.guards_ok());
    dump_sp(ev, m); ev.emit();
}

static void sp_hmacfinal(const Args &a) {
    std::string k = kind_of(a); int id = (int)a.num("obj");
    void *m = obj_get(id, k.c_str()).mem;
    bytes_t key = a.hex("key");
    InBuf kb(key, a.num("null_if_empty") != 0);
    OutBuf out(32, (unsigned)a.num("align"));
    if (k == "hmac") ascon_hmac_finalize((ascon_hmac_state_t *)m, kb.p, kb.n, out.p);
    else if (k == "hmaca") ascon_hmaca_finalize((ascon_hmaca_state_t *)m, kb.p, kb.n, out.p);
    else fatal("sp.hmacfinal kind");
    Ev ev("sp.hmacfinal"); ev.s("kind", k).n("obj", id).b("key", key).b("out", out.get(32)).n("guard", out.guards_ok());
    dump_sp(ev, m); ev.emit();
}

// One absorb call of hi * 2^32 + lo bytes against the same bytes in pieces (lengths that do not fit 32 bits: the
// specification cannot evaluate 4 GiB, but it says that the result does not depend on the partition).  The input is
// one 16 MiB pattern mapped back to back, read-only.
#include <sys/mman.h>
#include <unistd.h>
static void big_run(const std::string &k, const bytes_t &pre, const uint8_t *p, size_t total, size_t piece, uint8_t *out) {
    union { ascon_xof_state_t x; ascon_xofa_state_t xa; ascon_prf_state_t pr; } u; uint8_t key[16]; for (int i = 0; i < 16; ++i) key[i] = (uint8_t)(i * 17 + 1);
    const uint8_t *pp = pre.empty() ? (const uint8_t *)"" : &pre[0];
    if (k == "xof") ascon_xof_init(&u.x); else if (k == "xofa") ascon_xofa_init(&u.xa); else ascon_prf_init(&u.pr, key);
    for (size_t off = 0, first = 1; first || off < total; first = 0) {
        const uint8_t *d = first ? pp : p + off; size_t n = first ? pre.size() : (total - off < piece ? total - off : piece);
        if (k == "xof") ascon_xof_absorb(&u.x, d, n); else if (k == "xofa") ascon_xofa_absorb(&u.xa, d, n); else ascon_prf_absorb(&u.pr, d, n);
        if (!first) off += n;
    }
    if (k == "xof") { ascon_xof_squeeze(&u.x, out, 32); ascon_xof_free(&u.x); }
    else if (k == "xofa") { ascon_xofa_squeeze(&u.xa, out, 32); ascon_xofa_free(&u.xa); }
    else { ascon_prf_squeeze(&u.pr, out, 32); ascon_prf_free(&u.pr); }
}
static void sp_big(const Args &a) {
    std::string k = kind_of(a); bytes_t pre = a.hex("pre");
    size_t total = ((size_t)a.num("hi") << 32) + (size_t)a.num("lo"), unit = (size_t)16 << 20, span = ((total + unit - 1) / unit) * unit;
    if (k != "xof" && k != "xofa" && k != "prf") fatal("sp.big kind");
    int fd = memfd_create("big", 0); if (fd < 0 || ftruncate(fd, (off_t)unit) != 0) fatal("memfd");
    uint8_t *w = (uint8_t *)mmap(0, unit, PROT_READ | PROT_WRITE, MAP_SHARED, fd, 0); if (w == (uint8_t *)MAP_FAILED) fatal("mmap");
    for (size_t i = 0; i < unit; ++i) w[i] = (uint8_t)(i * 131 + (i >> 9) * 7 + (i >> 17));
    munmap(w, unit);
    uint8_t *base = (uint8_t *)mmap(0, span + 4096, PROT_NONE, MAP_PRIVATE | MAP_ANONYMOUS | MAP_NORESERVE, -1, 0); if (base == (uint8_t *)MAP_FAILED) fatal("mmap span");
    for (size_t off = 0; off < span; off += unit) if (mmap(base + off, unit, PROT_READ, MAP_SHARED | MAP_FIXED, fd, 0) == MAP_FAILED) fatal("mmap fixed");
    uint8_t one[32], pieces[32];
    big_run(k, pre, base, total, total ? total : 1, one);
    big_run(k, pre, base, total, ((size_t)1 << 30) + 5, pieces);
    munmap(base, span + 4096); close(fd);
    Ev ev("sp.big"); ev.s("kind", k).b("pre", pre).n("hi", a.num("hi")).n("lo", a.num("lo")).b("one", one, 32).b("pieces", pieces, 32); ev.emit();
}

static void sp_pad(const Args &a) {
    std::string k = kind_of(a); int id = (int)a.num("obj");
    void *m = obj_get(id, k.c_str()).mem;
    if (k == "xof") ascon_xof_pad((ascon_xof_state_t *)m);
    else if (k == "xofa") ascon_xofa_pad((ascon_xofa_state_t *)m);
    else fatal("sp.pad kind");
    Ev ev("sp.pad"); ev.s("kind", k).n("obj", id); dump_sp(ev, m); ev.emit();
}

static void sp_copy(const Args &a) {
    std::string k = kind_of(a); int id = (int)a.num("obj"), src = (int)a.num("src");
    void *sm = obj_get(src, k.c_str()).mem;
    Obj &o = obj_new(id, k, sp_size(k));
    if (a.has("junk")) memset(o.mem, (int)a.num("junk"), o.size);
    if (k == "xof") ascon_xof_copy((ascon_xof_state_t *)o.mem, (const ascon_xof_state_t *)sm);
    else if (k == "xofa") ascon_xofa_copy((ascon_xofa_state_t *)o.mem, (const ascon_xofa_state_t *)sm);
    else if (k == "hash") ascon_hash_copy((ascon_hash_state_t *)o.mem, (const ascon_hash_state_t *)sm);
    else if (k == "hasha") ascon_hasha_copy((ascon_hasha_state_t *)o.mem, (const ascon_hasha_state_t *)sm);
    else fatal("sp.copy kind");
    Ev ev("sp.copy"); ev.s("kind", k).n("obj", id).n("src", src); dump_sp(ev, o.mem);
    { Ev t("x"); dump_sp(t, sm); }   // touching the source must not disturb it (checked by later events)
    ev.emit();
}

static void sp_free(const Args &a) {
    std::string k = kind_of(a); int id = (int)a.num("obj");
    Obj &o = obj_get(id, k.c_str());
    void *m = o.mem;
    if (k == "xof") ascon_xof_free((ascon_xof_state_t *)m);
    else if (k == "xofa") ascon_xofa_free((ascon_xofa_state_t *)m);
    else if (k == "hash") ascon_hash_free((ascon_hash_state_t *)m);
    else if (k == "hasha") ascon_hasha_free((ascon_hasha_state_t *)m);
    else if (k == "prf") ascon_prf_free((ascon_prf_state_t *)m);
    else if (k == "kmac") ascon_kmac_free((ascon_kmac_state_t *)m);
    else if (k == "kmaca") ascon_kmaca_free((ascon_kmaca_state_t *)m);
    else if (k == "kdf") ascon_kdf_free((ascon_kdf_state_t *)m);
    else if (k == "kdfa") ascon_kdfa_free((ascon_kdfa_state_t *)m);
    else if (k == "hmac") ascon_hmac_free((ascon_hmac_state_t *)m);
    else if (k == "hmaca") ascon_hmaca_free((ascon_hmaca_state_t *)m);
    else fatal("sp.free kind");
    ascon_xof_state_t *x = (ascon_xof_state_t *)m;
    Ev ev("sp.free"); ev.s("kind", k).n("obj", id).n("count", x->count).n("mode", x->mode);
    if (a.num("dump_raw")) ev.n("wipe", a.num("wipe")).b("raw", (const uint8_t *)m, o.size);
    ev.emit();
    obj_del(id);
}

// ---- one-shot functions ---------------------------------------------------------------------
static void os_hash(const Args &a) {
    std::string k = kind_of(a); bytes_t d = a.hex("in");
    InBuf in(d, a.num("null_if_empty") != 0, (unsigned)a.num("align"));
    OutBuf out(32, (unsigned)a.num("oalign"));
    if (k == "hash") ascon_hash(out.p, in.p, in.n);
    else if (k == "hasha") ascon_hasha(out.p, in.p, in.n);
    else if (k == "xof") ascon_xof(out.p, in.p, in.n);
    else if (k == "xofa") ascon_xofa(out.p, in.p, in.n);
    else fatal("os.hash kind");
    Ev ev("os.hash"); ev.s("kind", k).b("in", d).b("out", out.get(32)).n("guard", out.guards_ok()); ev.emit();
}
static void os_prf(const Args &a) {
    std::string k = kind_of(a);          // prf | prf_fixed | prf_short | mac
    bytes_t key = a.hex("key"), d = a.hex("in"); size_t n = (size_t)a.num("n");
    if (key.size() != 16) fatal("prf key size");
    InBuf kb(key), in(d, a.num("null_if_empty") != 0, (unsigned)a.num("align"));
    if (k == "mac") n = 16;
    OutBuf out(n, (unsigned)a.num("oalign"));
    int ret = 0;
    if (k == "prf") ascon_prf(out.p, n, in.p, in.n, kb.p);
    else if (k == "prf_fixed") ascon_prf_fixed(out.p, n, in.p, in.n, kb.p);
    else if (k == "prf_short") ret = ascon_prf_short(out.p, n, in.p, in.n, kb.p);
    else if (k == "mac") ascon_mac(out.p, in.p, in.n, kb.p);
    else fatal("os.prf kind");
    Ev ev("os.prf"); ev.s("kind", k).b("key", key).b("in", d).n("n", (long long)n).n("ret", ret);
    ev.b("out", out.get(n)).n("guard", out.guards_ok()).n("untouched", out.untouched(0, n)); ev.emit();
}
// ascon_prf_short with DECLARED lengths far beyond the buffers (2^sin + nin input bytes, 2^sout + nout
// output bytes; s = -1: just n): every length above 16 must be refused before anything is read or written
static void os_prf_short_big(const Args &a) {
    bytes_t key = a.hex("key"); if (key.size() != 16) fatal("prf key size");
    long long sin = a.num("sin", -1), sout = a.num("sout", -1); size_t nin = (size_t)a.num("nin"), nout = (size_t)a.num("nout");
    size_t inlen = (sin >= 0 ? ((size_t)1 << sin) : 0) + nin, outlen = (sout >= 0 ? ((size_t)1 << sout) : 0) + nout;
    bytes_t d(16, 0x3c); InBuf kb(key), in(d); OutBuf out(16);
    int ret = ascon_prf_short(out.p, outlen, in.p, inlen, kb.p);
    Ev ev("os.prf_short_big"); ev.n("sin", sin).n("nin", (long long)nin).n("sout", sout).n("nout", (long long)nout).n("ret", ret < 0 ? -1 : ret)
        .n("guard", out.guards_ok()).n("untouched", out.untouched(0, 16)); ev.emit();
}
static void os_mac_verify(const Args &a) {
    bytes_t key = a.hex("key"), d = a.hex("in"), tag = a.hex("tag");
    if (key.size() != 16 || tag.size() != 16) fatal("mac_verify sizes");
    if (a.has("flip")) { long long b = a.num("flip"); tag[(size_t)(b / 8)] ^= (uint8_t)(1u << (b % 8)); }
    if (a.has("xor")) { bytes_t x = a.hex("xor"); for (size_t i = 0; i < x.size() && i < 16; ++i) tag[i] ^= x[i]; }     // several bytes at once
    InBuf kb(key), in(d, a.num("null_if_empty") != 0), tb(tag);
    int ret = ascon_mac_verify(tb.p, in.p, in.n, kb.p);
    Ev ev("os.mac_verify"); ev.b("key", key).b("in", d).b("tag", tag).n("ret", ret); ev.emit();
}
static void os_kmac(const Args &a) {
    std::string k = kind_of(a);          // kmac | kmaca
    bytes_t key = a.hex("key"), d = a.hex("in"), custom = a.hex("custom"); size_t n = (size_t)a.num("n");
    bool nie = a.num("null_if_empty") != 0;
    InBuf kb(key, nie), in(d, nie, (unsigned)a.num("align")), cb(custom, nie);
    OutBuf out(n, (unsigned)a.num("oalign"));
    if (k == "kmac") ascon_kmac(kb.p, kb.n, in.p, in.n, cb.p, cb.n, out.p, n);
    else if (k == "kmaca") ascon_kmaca(kb.p, kb.n, in.p, in.n, cb.p, cb.n, out.p, n);
    else fatal("os.kmac kind");
    Ev ev("os.kmac"); ev.s("kind", k).b("key", key).b("in", d).b("custom", custom).n("n", (long long)n);
    ev.b("out", out.get(n)).n("guard", out.guards_ok()); ev.emit();
}
static void os_kdf(const Args &a) {
    std::string k = kind_of(a);          // kdf | kdfa
    bytes_t key = a.hex("key"), custom = a.hex("custom"); size_t n = (size_t)a.num("n");
    bool nie = a.num("null_if_empty") != 0;
    InBuf kb(key, nie), cb(custom, nie);
    OutBuf out(n, (unsigned)a.num("oalign"));
    if (k == "kdf") ascon_kdf(out.p, n, kb.p, kb.n, cb.p, cb.n);
    else if (k == "kdfa") ascon_kdfa(out.p, n, kb.p, kb.n, cb.p, cb.n);
    else fatal("os.kdf kind");
    Ev ev("os.kdf"); ev.s("kind", k).b("key", key).b("custom", custom).n("n", (long long)n);
    ev.b("out", out.get(n)).n("guard", out.guards_ok()); ev.emit();
}
static void os_hmac(const Args &a) {
    std::string k = kind_of(a);          // hmac | hmaca
    bytes_t key = a.hex("key"), d = a.hex("in");
    bool nie = a.num("null_if_empty") != 0;
    InBuf kb(key, nie), in(d, nie, (unsigned)a.num("align"));
    OutBuf out(32, (unsigned)a.num("oalign"));
    if (k == "hmac") ascon_hmac(out.p, kb.p, kb.n, in.p, in.n);
    else if (k == "hmaca") ascon_hmaca(out.p, kb.p, kb.n, in.p, in.n);
    else fatal("os.hmac kind");
    Ev ev("os.hmac"); ev.s("kind", k).b("key", key).b("in", d).b("out", out.get(32)).n("guard", out.guards_ok()); ev.emit();
}

void reg_sponge() {
    reg("sp.init", sp_init); reg("sp.absorb", sp_absorb); reg("sp.big", sp_big); reg("sp.squeeze", sp_squeeze);
    reg("sp.hmacfinal", sp_hmacfinal); reg("sp.pad", sp_pad); reg("sp.copy", sp_copy); reg("sp.free", sp_free);
    reg("os.hash", os_hash); reg("os.prf", os_prf); reg("os.prf_short_big", os_prf_short_big); reg("os.mac_verify", os_mac_verify);
    reg("os.kmac", os_kmac); reg("os.kdf", os_kdf); reg("os.hmac", os_hmac);
}
void reg_mac() {}
