// Runs the AVR5 permutation AS GENERATED (the instruction list the generator turns into
// ascon-asm-avr5.S) on the generator's own AVR instruction interpreter.
// stdin: text lines "<first_round> <80 hex digits>"; stdout: "<80 hex digits>" per line.
// Also runs the generator's self tests of the masked x2 / x3 code (one vector, rounds 0 and 4).
#include "gen.h"
#include <cstdio>
#include <cstring>
#include <iostream>
#include <string>
int main(int argc, char **argv) {
    if (argc > 1 && !strcmp(argv[1], "--selftest")) {
        Code c2a, c2b, c3;
        gen_ascon_x2_permutation(c2a, 2); gen_ascon_x2_permutation(c2b, 3); gen_ascon_x3_permutation(c3);
        printf("x2_2 %d\nx2_3 %d\nx3 %d\n", test_ascon_x2_permutation(c2a, 2) ? 1 : 0, test_ascon_x2_permutation(c2b, 3) ? 1 : 0, test_ascon_x3_permutation(c3) ? 1 : 0);
        return 0;
    }
    Code code; gen_ascon_permutation(code);
    std::string line;
    while (std::getline(std::cin, line)) {
        unsigned r; char hex[100];
        if (sscanf(line.c_str(), "%u %80s", &r, hex) != 2) continue;
        unsigned char st[40];
        for (int i = 0; i < 40; ++i) { unsigned v; sscanf(hex + 2 * i, "%2x", &v); st[i] = (unsigned char)v; }
        code.exec_permutation(st, 40, r);
        for (int i = 0; i < 40; ++i) printf("%02x", st[i]);
        printf("\n");
    }
    return 0;
}
