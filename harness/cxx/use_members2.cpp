// Second translation unit of the "compiles when used" program (C17): the public C++ headers must be usable from
// more than one translation unit of a program (a non-inline definition in a header links once, not twice).
#include <ascon/aead.h>
#include <ascon/aead-masked.h>
#include <ascon/siv.h>
#include <ascon/isap.h>
#include <ascon/hash.h>
#include <ascon/xof.h>
#include <ascon/utility.h>

int use_all_cipher_members();
int use_headers_again()
{
    ascon::hash h; ascon::hasha ha; ascon::xof x; ascon::xofa xa;
    ascon::xof_with_output_length<32> x32; ascon::xofa_with_output_length<64> xa64;
    unsigned char out[64] = {0};
    h.update(out, 3); h.finalize(out); h.reset();
    ha.update(out, 3); ha.finalize(out); ha.reset();
    x.absorb(out, 5); x.squeeze(out, 7); x.reset();
    xa.absorb(out, 5); xa.squeeze(out, 7); xa.reset();
    x32.absorb(out, 1); x32.squeeze(out, 32); x32.reset();
    xa64.absorb(out, 1); xa64.squeeze(out, 64); xa64.reset();
    ascon::byte_array b = ascon::bytes_from_hex("0102");
    return (int)b.size() + out[0] + use_all_cipher_members();
}
int main() { return use_headers_again() == -12345 ? 1 : 0; }
