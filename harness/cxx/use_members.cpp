// C17 "compile when used": every documented public member of every concrete cipher class of the C++
// interface, named through the class's OWN static type (so that a member that was made private or
// protected in one class, or whose signature no longer matches the documentation, fails to compile
// here even though the library and its tests, which go through ascon::aead pointers, still build).
// Compiled with -fsyntax-only by checks/c17.py; never executed.
#include <ascon/aead.h>
#include <ascon/aead-masked.h>
#include <ascon/siv.h>
#include <ascon/isap.h>
#include <ascon/hash.h>
#include <ascon/xof.h>
#include <ascon/utility.h>

template<class C> static int use_aead(C &c, const unsigned char *k, size_t klen)
{
    unsigned char buf[64] = {0}, out[80];
    ascon::byte_array bc, bm(3, 1), bad(2, 2);
    size_t a = c.key_size(), b = c.tag_size(), n = c.nonce_size();
    bool ok = c.set_key(k, klen);
    c.set_nonce(buf, 16);
    c.set_counter(uint64_t(5));
    int r1 = c.encrypt(out, buf, 7);
    int r2 = c.encrypt(out, buf, 7, buf, 3);
    c.encrypt(bc, bm);
    c.encrypt(bc, bm, bad);
    int r3 = c.decrypt(buf, out, 23);
    int r4 = c.decrypt(buf, out, 23, buf, 3);
    bool d1 = c.decrypt(bm, bc);
    bool d2 = c.decrypt(bm, bc, bad);
    c.clear();
    ascon::aead &base = c;            // every class is an ascon::aead
    (void)base;
    return (int)(a + b + n) + ok + r1 + r2 + r3 + r4 + d1 + d2;
}

template<class C> static int use_keyed(const unsigned char *k, size_t klen)
{
    C dflt;                           // default constructor
    C keyed(k);                       // construct with an initial key
    return use_aead(dflt, k, klen) + use_aead(keyed, k, klen);
}

template<class C> static int use_masked(const unsigned char *k, size_t klen)
{
    C dflt; C keyed(k);
    dflt.randomize_key(); keyed.randomize_key();
    ascon::aead_masked &base = dflt; base.randomize_key();
    return use_aead(dflt, k, klen) + use_aead(keyed, k, klen);
}

template<class C> static int use_isap(const unsigned char *k, size_t klen)
{
    C dflt; C keyed(k, klen);
    unsigned char saved[ASCON_ISAP_SAVED_KEY_SIZE];
    keyed.save_key(saved);
    C loaded(saved, sizeof(saved));
    return use_aead(dflt, k, klen) + use_aead(keyed, k, klen) + use_aead(loaded, k, klen);
}

int use_all_cipher_members()
{
    static const unsigned char k[20] = {1, 2, 3};
    return use_keyed<ascon::aead128>(k, 16) + use_keyed<ascon::aead128a>(k, 16) + use_keyed<ascon::aead80pq>(k, 20)
         + use_keyed<ascon::siv128>(k, 16) + use_keyed<ascon::siv128a>(k, 16) + use_keyed<ascon::siv80pq>(k, 20)
         + use_masked<ascon::aead128_masked>(k, 16) + use_masked<ascon::aead128a_masked>(k, 16) + use_masked<ascon::aead80pq_masked>(k, 20)
         + use_isap<ascon::isap128>(k, 16) + use_isap<ascon::isap128a>(k, 16) + use_isap<ascon::isap80pq>(k, 20);
}
