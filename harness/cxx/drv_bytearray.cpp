// Separate driver program (drv_nostl), compiled with -DASCON_NO_STL=1 together with
// /repo/src/cplusplus/ascon-byte-array.cpp: the replacement ascon::byte_array (C20).
// After every operation the observers (size, empty, contents) of ALL live variables are logged,
// because aliasing defects show up in a variable other than the one operated on.
#include "drv.h"
#include <ascon/utility.h>
#include <map>

static std::map<int, ascon::byte_array *> g_vars;
// the harness must not leak under LeakSanitizer: free whatever a plan left alive
struct VarsCleaner { ~VarsCleaner(); } g_vars_cleaner;
static ascon::byte_array &var(int id) {
    std::map<int, ascon::byte_array *>::iterator it = g_vars.find(id);
    if (it == g_vars.end()) fatal("no byte_array %d", id);
    return *it->second;
}
static void log_all(Ev &ev) {
    std::ostringstream os; os << "[";
    bool first = true;
    for (std::map<int, ascon::byte_array *>::iterator it = g_vars.begin(); it != g_vars.end(); ++it) {
        const ascon::byte_array &b = *it->second;          // const access: must not detach or modify
        if (!first) os << ","; first = false;
        os << "{\"id\":" << it->first << ",\"size\":" << b.size() << ",\"empty\":" << (b.empty() ? 1 : 0) << ",\"capok\":" << (b.capacity() >= b.size() ? 1 : 0) << ",\"data\":[";
        const unsigned char *p = b.data();
        for (size_t i = 0; i < b.size(); ++i) { if (i) os << ","; os << (unsigned)p[i]; }
        os << "]}";
    }
    os << "]";
    ev.raw("vars", os.str());
}
static void put(int id, ascon::byte_array *b) {
    if (g_vars.count(id)) { delete g_vars[id]; }
    g_vars[id] = b;
}
static void b_new(const Args &a) {
    int id = (int)a.num("obj"); std::string how = a.str("how", "default");
    if (how == "default") put(id, new ascon::byte_array());
    else if (how == "sized") put(id, new ascon::byte_array((size_t)a.num("n"), (unsigned char)a.num("value")));
    else if (how == "sized0") put(id, new ascon::byte_array((size_t)a.num("n")));
    else if (how == "copy") { ascon::byte_array *c = new ascon::byte_array(var((int)a.num("src"))); put(id, c); }
    else fatal("ba.new how");
    Ev ev("ba.new"); ev.n("obj", id).s("how", how).n("n", a.num("n")).n("value", a.num("value")).n("src", a.num("src")); log_all(ev); ev.emit();
}
static void b_assign(const Args &a) {
    int id = (int)a.num("obj"), src = (int)a.num("src");
    var(id) = var(src);
    Ev ev("ba.assign"); ev.n("obj", id).n("src", src); log_all(ev); ev.emit();
}
static void b_index_set(const Args &a) {
    int id = (int)a.num("obj"); size_t pos = (size_t)a.num("pos");
    var(id)[pos] = (unsigned char)a.num("value");
    Ev ev("ba.index_set"); ev.n("obj", id).n("pos", (long long)pos).n("value", a.num("value")); log_all(ev); ev.emit();
}
static void b_index_get(const Args &a) {
    int id = (int)a.num("obj"); size_t pos = (size_t)a.num("pos"); bool cst = a.num("const") != 0;
    unsigned v = cst ? (unsigned)static_cast<const ascon::byte_array &>(var(id))[pos] : (unsigned)var(id)[pos];
    Ev ev("ba.index_get"); ev.n("obj", id).n("pos", (long long)pos).n("const", cst).n("ret", v); log_all(ev); ev.emit();
}
static void b_data_set(const Args &a) {
    int id = (int)a.num("obj"); size_t pos = (size_t)a.num("pos");
    var(id).data()[pos] = (unsigned char)a.num("value");
    Ev ev("ba.data_set"); ev.n("obj", id).n("pos", (long long)pos).n("value", a.num("value")); log_all(ev); ev.emit();
}
static void b_resize(const Args &a) {
    int id = (int)a.num("obj"); var(id).resize((size_t)a.num("n"));
    Ev ev("ba.resize"); ev.n("obj", id).n("n", a.num("n")); log_all(ev); ev.emit();
}
static void b_reserve(const Args &a) {
    int id = (int)a.num("obj"); var(id).reserve((size_t)a.num("n"));
    Ev ev("ba.reserve"); ev.n("obj", id).n("n", a.num("n")).n("cap_ok", var(id).capacity() >= (size_t)a.num("n") ? 1 : 0); log_all(ev); ev.emit();
}
static void b_push(const Args &a) {
    int id = (int)a.num("obj"); var(id).push_back((unsigned char)a.num("value"));
    Ev ev("ba.push"); ev.n("obj", id).n("value", a.num("value")); log_all(ev); ev.emit();
}
// the pushed value is an element of a byte_array (possibly the same one), passed as the expression itself
static void b_push_from(const Args &a) {
    int id = (int)a.num("obj"), src = (int)a.num("src"); size_t pos = (size_t)a.num("pos"); std::string via = a.str("via", "index");
    if (via == "index") var(id).push_back(var(src)[pos]);
    else if (via == "cindex") var(id).push_back(static_cast<const ascon::byte_array &>(var(src))[pos]);
    else if (via == "data") var(id).push_back(var(src).data()[pos]);
    else var(id).push_back(*(var(src).begin() + pos));
    Ev ev("ba.push_from"); ev.n("obj", id).n("src", src).n("pos", (long long)pos).s("via", via); log_all(ev); ev.emit();
}
static void b_pop(const Args &a) {
    int id = (int)a.num("obj"); var(id).pop_back();
    Ev ev("ba.pop"); ev.n("obj", id); log_all(ev); ev.emit();
}
static void b_clear(const Args &a) {
    int id = (int)a.num("obj"); var(id).clear();
    Ev ev("ba.clear"); ev.n("obj", id); log_all(ev); ev.emit();
}
static void b_cmp(const Args &a) {
    int id = (int)a.num("obj"), o = (int)a.num("other");
    const ascon::byte_array &x = var(id), &y = var(o);
    Ev ev("ba.cmp"); ev.n("obj", id).n("other", o).n("eq", x == y).n("ne", x != y).n("lt", x < y).n("le", x <= y).n("gt", x > y).n("ge", x >= y);
    log_all(ev); ev.emit();
}
static void b_iter(const Args &a) {
    int id = (int)a.num("obj"); bool cst = a.num("const") != 0; bytes_t r;
    if (cst) { const ascon::byte_array &x = var(id); for (ascon::byte_array::const_iterator it = x.cbegin(); it != x.cend(); ++it) r.push_back(*it);
               size_t n = 0; for (ascon::byte_array::const_iterator it = x.begin(); it != x.end(); ++it) ++n; if (n != r.size()) r.push_back(0xEE); }
    else { ascon::byte_array &x = var(id); for (ascon::byte_array::iterator it = x.begin(); it != x.end(); ++it) r.push_back(*it); }
    Ev ev("ba.iter"); ev.n("obj", id).n("const", cst).b("out", r); log_all(ev); ev.emit();
}
static void b_del(const Args &a) {
    int id = (int)a.num("obj"); delete g_vars[id]; g_vars.erase(id);
    Ev ev("ba.del"); ev.n("obj", id); log_all(ev); ev.emit();
}
VarsCleaner::~VarsCleaner() { for (std::map<int, ascon::byte_array *>::iterator it = g_vars.begin(); it != g_vars.end(); ++it) delete it->second; g_vars.clear(); }
static void b_reset(const Args &) {
    for (std::map<int, ascon::byte_array *>::iterator it = g_vars.begin(); it != g_vars.end(); ++it) delete it->second;
    g_vars.clear(); Ev("Reset").emit();
}
// C++ helpers over the replacement type
static void u_from_hex(const Args &a) {
    bytes_t s = a.hex("str"); std::string str(s.begin(), s.end()); std::string form = a.str("form", "cstr");
    ascon::byte_array r = form == "len" ? ascon::bytes_from_hex(str.data(), str.size()) : ascon::bytes_from_hex(str.c_str());
    const ascon::byte_array &cr = r;
    Ev ev("util.from_hex"); ev.s("form", form).b("str", s).b("out", bytes_t(cr.data(), cr.data() + cr.size())); ev.emit();
}
void reg_extra() {
    reg("ba.new", b_new); reg("ba.assign", b_assign); reg("ba.index_set", b_index_set); reg("ba.index_get", b_index_get);
    reg("ba.data_set", b_data_set); reg("ba.resize", b_resize); reg("ba.reserve", b_reserve); reg("ba.push", b_push); reg("ba.push_from", b_push_from);
    reg("ba.pop", b_pop); reg("ba.clear", b_clear); reg("ba.cmp", b_cmp); reg("ba.iter", b_iter); reg("ba.del", b_del);
    reg("reset", b_reset); reg("util.from_hex", u_from_hex);
}
void tape_set_mask(const std::string &, const bytes_t &) {}
long long tape_mask_calls() { return 0; }
