// Separate driver program (drv_cxx) for the header-only C++ layer (C17, C20): ascon::hash, hasha,
// xof, xofa, xof_with_output_length<N>, xofa_with_output_length<N> and the byte-array helper
// functions.  It is its own translation unit and binary on purpose: if a documented member does not
// compile against /repo's headers, only this program fails to build and C17 reports it.
#include "drv.h"
#include <new>
#include <string>
#include <ascon/hash.h>
#include <ascon/xof.h>
#include <ascon/utility.h>

// A uniform interface over all the classes
struct HObj {
    // zero-filled storage: the padding bytes of the wrapped C struct are never written by the library, and what the
    // allocator hands out must not look like residue (this was a false alarm of checks/c13.py: byte 42 of a
    // freed ascon::hash held allocator garbage from an earlier case)
    static void *operator new(size_t n) { void *p = calloc(1, n); if (!p) abort(); return p; }
    static void operator delete(void *p) { free(p); }
    virtual ~HObj() {}
    virtual HObj *clone() const = 0;                 // copy constructor
    virtual void assign(const HObj *o) = 0;          // operator=
    virtual void reset() = 0;
    virtual void absorb(const bytes_t &d, const std::string &form, bool nie) = 0;
    virtual bytes_t squeeze(size_t n, const std::string &form, bool &guard) = 0;   // hash: finalize
    virtual void pad() = 0;
    virtual const ascon_xof_state_t *st() const = 0;
};
template <class X> struct XofObj : HObj {
    X x;
    XofObj() {}
    XofObj(const XofObj &o) : HObj(), x(o.x) {}
    XofObj(const char *name, const unsigned char *c, size_t cl) : x(name, c, cl) {}
    XofObj(const char *name, const ascon::byte_array &c) : x(name, c) {}
    explicit XofObj(const char *name) : x(name) {}
    HObj *clone() const { return new XofObj(*this); }
    void assign(const HObj *o) { x = static_cast<const XofObj *>(o)->x; }
    void reset() { x.reset(); }
    void absorb(const bytes_t &d, const std::string &form, bool nie) {
        if (form == "ptr") { InBuf b(d, nie); x.absorb(b.p, b.n); }
        else if (form == "cstr") { std::string s(d.begin(), d.end()); x.absorb(s.c_str()); }
        else if (form == "cstrnull") { x.absorb((const char *)0); }
        else if (form == "string") { std::string s(d.begin(), d.end()); x.absorb(s); }
        else { ascon::byte_array b(d.begin(), d.end()); x.absorb(b); }
    }
    bytes_t squeeze(size_t n, const std::string &form, bool &guard) {
        if (form == "ptr") { OutBuf o(n); x.squeeze(o.p, n); guard = o.guards_ok(); return o.get(n); }
        ascon::byte_array b = x.squeeze(n); guard = b.size() == n; return bytes_t(b.begin(), b.end());
    }
    void pad() { x.pad(); }
    const ascon_xof_state_t *st() const { return (const ascon_xof_state_t *)x.state(); }
};
template <class H> struct HashObj : HObj {
    H x;
    HashObj() {}
    HashObj(const HashObj &o) : HObj(), x(o.x) {}
    HObj *clone() const { return new HashObj(*this); }
    void assign(const HObj *o) { x = static_cast<const HashObj *>(o)->x; }
    void reset() { x.reset(); }
    void absorb(const bytes_t &d, const std::string &form, bool nie) {
        if (form == "ptr") { InBuf b(d, nie); x.update(b.p, b.n); }
        else if (form == "cstr") { std::string s(d.begin(), d.end()); x.update(s.c_str()); }
        else if (form == "cstrnull") { x.update((const char *)0); }
        else if (form == "string") { std::string s(d.begin(), d.end()); x.update(s); }
        else { ascon::byte_array b(d.begin(), d.end()); x.update(b); }
    }
    bytes_t squeeze(size_t, const std::string &form, bool &guard) {
        if (form == "ptr") { OutBuf o(32); x.finalize(o.p); guard = o.guards_ok(); return o.get(32); }
        ascon::byte_array b = x.finalize(); guard = b.size() == 32; return bytes_t(b.begin(), b.end());
    }
    void pad() { fatal("pad on hash"); }
    const ascon_xof_state_t *st() const { return (const ascon_xof_state_t *)x.state(); }
};

static HObj *make(const std::string &cls, const std::string &how, const char *name, const bytes_t &custom) {
#define XCASE(NAME, T) if (cls == NAME) { \
        if (how == "default") return new XofObj<T>(); \
        if (how == "name") return new XofObj<T>(name); \
        if (how == "custom_ba") { ascon::byte_array b(custom.begin(), custom.end()); return new XofObj<T>(name, b); } \
        InBuf cb(custom); return new XofObj<T>(name, cb.p, cb.n); }
    XCASE("xof", ascon::xof) XCASE("xofa", ascon::xofa)
    XCASE("xof16", ascon::xof_with_output_length<16>) XCASE("xof32", ascon::xof_with_output_length<32>) XCASE("xof64", ascon::xof_with_output_length<64>)
    XCASE("xofa16", ascon::xofa_with_output_length<16>) XCASE("xofa32", ascon::xofa_with_output_length<32>) XCASE("xofa64", ascon::xofa_with_output_length<64>)
    if (cls == "hash") return new HashObj<ascon::hash>();
    if (cls == "hasha") return new HashObj<ascon::hasha>();
    fatal("unknown class %s", cls.c_str()); return 0;
}
static void dump(Ev &ev, const HObj *h) {
    ascon_xof_state_t *x = const_cast<ascon_xof_state_t *>(h->st());
    uint8_t b[40]; ascon_acquire(&x->state); ascon_extract_bytes(&x->state, b, 0, 40); ascon_release(&x->state);
    ev.n("count", x->count).n("mode", x->mode).b("s40", b, 40);
}
static HObj *hobj(int id) { return (HObj *)obj_get(id, "cxh.").aux; }
static std::string hcls(int id) { return obj_get(id, "cxh.").kind.substr(4); }

static void h_new(const Args &a) {
    std::string cls = a.str("cls"), how = a.str("how", "default"); int id = (int)a.num("obj");
    bytes_t name = a.hex("name"), custom = a.hex("custom"); std::string nm(name.begin(), name.end());
    HObj *h;
    if (how == "copy") h = hobj((int)a.num("src"))->clone();
    else h = make(cls, how, a.str("name", "") == "null" ? 0 : nm.c_str(), custom);
    Obj &o = obj_new(id, "cxh." + cls, 1); o.aux = h;
    Ev ev("cxh.new"); ev.s("cls", cls).n("obj", id).s("how", how).b("name", name).n("name_null", a.str("name", "") == "null").b("custom", custom).n("src", a.num("src"));
    dump(ev, h); ev.emit();
}
static void h_assign(const Args &a) {
    int id = (int)a.num("obj"), src = (int)a.num("src");
    hobj(id)->assign(hobj(src));
    Ev ev("cxh.assign"); ev.s("cls", hcls(id)).n("obj", id).n("src", src); dump(ev, hobj(id)); ev.emit();
}
static void h_reset(const Args &a) {
    int id = (int)a.num("obj"); hobj(id)->reset();
    Ev ev("cxh.reset"); ev.s("cls", hcls(id)).n("obj", id); dump(ev, hobj(id)); ev.emit();
}
static void h_absorb(const Args &a) {
    int id = (int)a.num("obj"); bytes_t d = a.hex("in"); std::string form = a.str("form", "ptr");
    hobj(id)->absorb(d, form, a.num("null_if_empty") != 0);
    Ev ev("cxh.absorb"); ev.s("cls", hcls(id)).n("obj", id).s("form", form).b("in", form == "cstrnull" ? bytes_t() : d); dump(ev, hobj(id)); ev.emit();
}
static void h_squeeze(const Args &a) {
    int id = (int)a.num("obj"); size_t n = (size_t)a.num("n"); std::string form = a.str("form", "ptr"); bool g = true;
    std::string cls = hcls(id); if (cls == "hash" || cls == "hasha") n = 32;
    bytes_t out = hobj(id)->squeeze(n, form, g);
    Ev ev("cxh.squeeze"); ev.s("cls", cls).n("obj", id).s("form", form).n("n", (long long)n).b("out", out).n("guard", g); dump(ev, hobj(id)); ev.emit();
}
static void h_pad(const Args &a) {
    int id = (int)a.num("obj"); hobj(id)->pad();
    Ev ev("cxh.pad"); ev.s("cls", hcls(id)).n("obj", id); dump(ev, hobj(id)); ev.emit();
}
static void h_del(const Args &a) {
    int id = (int)a.num("obj"); HObj *h = hobj(id);
    // the wrapped library object lives inside *h: run its destructor, then look at the storage
    const ascon_xof_state_t *st = h->st();
    h->~HObj();
    Ev ev("cxh.del"); ev.s("cls", hcls(id)).n("obj", id);
    if (a.num("dump_raw")) ev.n("wipe", a.num("wipe")).b("raw", (const uint8_t *)st, sizeof(ascon_xof_state_t));
    ev.emit(); HObj::operator delete((void *)h); obj_del(id);
}
static void h_digest(const Args &a) {
    std::string cls = a.str("cls"); bytes_t d = a.hex("in"); InBuf b(d, a.num("null_if_empty") != 0); OutBuf o(32);
    if (cls == "hash") ascon::hash::digest(o.p, b.p, b.n); else ascon::hasha::digest(o.p, b.p, b.n);
    Ev ev("cxh.digest"); ev.s("cls", cls).b("in", d).b("out", o.get(32)).n("guard", o.guards_ok()); ev.emit();
}
// byte-array helper functions of utility.h
static void u_from_hex(const Args &a) {
    bytes_t s = a.hex("str"); std::string form = a.str("form", "cstr"); std::string str(s.begin(), s.end());
    ascon::byte_array r;
    if (form == "cstr") r = ascon::bytes_from_hex(str.c_str());
    else if (form == "cstrnull") r = ascon::bytes_from_hex((const char *)0);
    else if (form == "len") r = ascon::bytes_from_hex(str.data(), str.size());
    else r = ascon::bytes_from_hex(str);
    Ev ev("util.from_hex"); ev.s("form", form).b("str", form == "cstrnull" ? bytes_t() : s).b("out", bytes_t(r.begin(), r.end())); ev.emit();
}
static void u_to_hex(const Args &a) {
    bytes_t d = a.hex("in"); std::string form = a.str("form", "ptr"); bool up = a.num("upper") != 0; std::string r;
    if (form == "ptr") { InBuf b(d); r = a.num("dflt") ? ascon::bytes_to_hex(b.p, b.n) : ascon::bytes_to_hex(b.p, b.n, up); }
    else { ascon::byte_array b(d.begin(), d.end()); r = a.num("dflt") ? ascon::bytes_to_hex(b) : ascon::bytes_to_hex(b, up); }
    Ev ev("util.to_hex"); ev.s("form", form).b("in", d).n("upper", a.num("dflt") ? 0 : up).b("out", bytes_t(r.begin(), r.end())); ev.emit();
}
static void u_from_data(const Args &a) {
    bytes_t d = a.hex("in"); InBuf b(d, a.num("null_if_empty") != 0);
    ascon::byte_array r = ascon::bytes_from_data(b.p, b.n);
    Ev ev("util.from_data"); ev.b("in", d).b("out", bytes_t(r.begin(), r.end())); ev.emit();
}
void reg_extra() {
    reg("cxh.new", h_new); reg("cxh.assign", h_assign); reg("cxh.reset", h_reset); reg("cxh.absorb", h_absorb);
    reg("cxh.squeeze", h_squeeze); reg("cxh.pad", h_pad); reg("cxh.del", h_del); reg("cxh.digest", h_digest);
    reg("util.from_hex", u_from_hex); reg("util.to_hex", u_to_hex); reg("util.from_data", u_from_data);
}
// tape stubs (this program does not wrap the TRNG)
void tape_set_mask(const std::string &, const bytes_t &) {}
long long tape_mask_calls() { return 0; }
