// Conformance driver for ascon-suite: interprets a plan (one command per line) against the
// real library and writes one ndjson trace event per public call, at its return.
#ifndef DRV_H
#define DRV_H
#include <stdint.h>
#include <stddef.h>
#include <string.h>
#include <stdio.h>
#include <stdlib.h>
#include <string>
#include <vector>
#include <map>
#include <sstream>

typedef std::vector<uint8_t> bytes_t;

struct Args {
    std::string op;
    std::map<std::string, std::string> kv;
    bool has(const char *k) const { return kv.count(k) != 0; }
    std::string str(const char *k, const char *dflt = "") const {
        std::map<std::string, std::string>::const_iterator it = kv.find(k);
        return it == kv.end() ? std::string(dflt) : it->second;
    }
    long long num(const char *k, long long dflt = 0) const {
        std::map<std::string, std::string>::const_iterator it = kv.find(k);
        if (it == kv.end()) return dflt;
        return strtoll(it->second.c_str(), 0, 0);
    }
    unsigned long long unum(const char *k, unsigned long long dflt = 0) const {
        std::map<std::string, std::string>::const_iterator it = kv.find(k);
        if (it == kv.end()) return dflt;
        return strtoull(it->second.c_str(), 0, 0);
    }
    bytes_t hex(const char *k) const;
    std::vector<long long> list(const char *k) const;
};

// JSON event builder
struct Ev {
    std::ostringstream os;
    bool first;
    explicit Ev(const std::string &e) : first(true) { os << "{"; s("e", e); }
    void key(const char *k) { if (!first) os << ","; first = false; os << "\"" << k << "\":"; }
    Ev &s(const char *k, const std::string &v);
    Ev &n(const char *k, long long v) { key(k); os << v; return *this; }
    Ev &b(const char *k, const uint8_t *p, size_t len);
    Ev &b(const char *k, const bytes_t &v) { return b(k, v.empty() ? (const uint8_t *)"" : &v[0], v.size()); }
    Ev &sz(const char *k, unsigned long long v);       // size_t as four 16-bit limbs
    Ev &l(const char *k, const std::vector<long long> &v);
    Ev &raw(const char *k, const std::string &json) { key(k); os << json; return *this; }
    void emit();
};

// Exact-size heap copy of an input (so that ASan sees over-reads); NULL for empty if asked.
struct InBuf {
    uint8_t *mem; uint8_t *p; size_t n; size_t maplen;
    InBuf(const bytes_t &v, bool null_if_empty = false, unsigned align = 0);
    ~InBuf();
private: InBuf(const InBuf &); InBuf &operator=(const InBuf &);
};

// Output buffer with canaries on both sides; body pre-filled with a known pattern.
struct OutBuf {
    uint8_t *mem; uint8_t *p; size_t n; unsigned align;
    bool tight; size_t maplen;      // tight: the body ends exactly where accessible memory ends (no trailing canary)
    enum { GUARD = 192 };   // wide enough to contain the overruns one expects (a block, a tag, a state)
    explicit OutBuf(size_t n, unsigned align = 0);
    ~OutBuf();
    bool guards_ok() const;
    bool untouched(size_t from, size_t to) const;   // body bytes [from,to) still hold the fill
    bytes_t get(size_t len) const { return bytes_t(p, p + len); }
    void load(const bytes_t &v) { if (!v.empty()) memcpy(p, &v[0], v.size()); }
    static uint8_t fill(size_t i) { return (uint8_t)(0xC3 ^ (i * 7)); }
private: OutBuf(const OutBuf &); OutBuf &operator=(const OutBuf &);
};

struct Obj {
    std::string kind;
    void *mem;       // zero-filled storage, 64-byte aligned
    size_t size;
    void *aux;       // kind-specific (e.g. C++ object pointer)
    uint8_t *map; size_t maplen;      // the object's own pages (obj_protect)
    Obj() : mem(0), size(0), aux(0), map(0), maplen(0) {}
};

Obj &obj_new(int id, const std::string &kind, size_t size);
Obj &obj_get(int id, const char *kind_prefix = 0);
bool obj_exists(int id);
void obj_del(int id);
void obj_protect(int id, bool readonly);
void obj_reset_all();
void obj_check_all();

typedef void (*handler_t)(const Args &);
void reg(const char *op, handler_t h);
void fatal(const char *fmt, ...);
void reg_store(const Args &a, const bytes_t &v);   // save=NAME / save=NAME+ registers

// tape for the wrapped TRNG entry points (wrap_trng.cpp)
void tape_set_mask(const std::string &mode, const bytes_t &data);
void tape_set_src(const std::vector<std::pair<int, bytes_t> > &entries);
std::string tape_used_json();      // mask values handed out since last call of this function
long long tape_src_calls();        // number of ascon_trng_generate calls since last reset
long long tape_mask_calls();
void tape_reset_counters();
std::string src_log_json();

void reg_perm(); void reg_sponge(); void reg_aead(); void reg_mac(); void reg_kdf();
void reg_extra(); void reg_abi(); void reg_ct();
void reg_isap(); void reg_prng(); void reg_masked(); void reg_cpp(); void reg_misc();

#endif
