// C11: keyed primitives called with their secrets marked "undefined" for Valgrind/memcheck, so
// that every conditional jump and every memory address that depends on a secret is reported
// (taint tracking over all secret values on the executed path).  Each event carries the number
// of new memcheck errors during the call and the sequence of ascon_permute() calls (their
// first_round arguments) observed through a link-time wrapper: the public leakage, which the
// specification predicts from public lengths alone.
#include "drv.h"
#include <valgrind/memcheck.h>
#include <ascon/aead.h>
#include <ascon/aead-masked.h>
#include <ascon/siv.h>
#include <ascon/isap.h>
#include <ascon/prf.h>
#include <ascon/hmac.h>
#include <ascon/kmac.h>
#include <ascon/kdf.h>
#include <ascon/hkdf.h>
#include <ascon/pbkdf2.h>
#include <ascon/random.h>
#include <ascon/xof.h>

static thread_local std::vector<int> g_rounds; static thread_local bool g_rec = false;
extern "C" void __real_ascon_permute(ascon_state_t *state, uint8_t first_round);
extern "C" void __wrap_ascon_permute(ascon_state_t *state, uint8_t first_round) {
    if (g_rec && g_rounds.size() < 100000) g_rounds.push_back(first_round);
    __real_ascon_permute(state, first_round);
}
bool g_taint_tape = false;     // wrap_trng.cpp marks masking randomness undefined when set

struct Sec {      // a heap copy of a secret, tainted
    uint8_t *p; size_t n;
    explicit Sec(const bytes_t &v) : n(v.size()) { p = (uint8_t *)malloc(n ? n : 1); if (n) memcpy(p, &v[0], n); (void)VALGRIND_MAKE_MEM_UNDEFINED(p, n); }
    ~Sec() { (void)VALGRIND_MAKE_MEM_DEFINED(p, n); free(p); }
};
static void defined(void *p, size_t n) { (void)VALGRIND_MAKE_MEM_DEFINED(p, n); }

// non-volatile storage whose content (a saved seed) is secret
static const uint8_t *g_ct_store = 0; static size_t g_ct_store_n = 0;
static int ct_read(const ascon_storage_t *, size_t off, unsigned char *data, size_t size) {
    for (size_t i = 0; i < size; ++i) data[i] = off + i < g_ct_store_n ? g_ct_store[off + i] : 0;
    (void)VALGRIND_MAKE_MEM_UNDEFINED(data, size);
    return (int)size;
}
static int ct_write(const ascon_storage_t *, size_t, const unsigned char *, size_t size, int) { return (int)size; }

static void ct_call(const Args &a) {
    std::string fn = a.str("fn");
    bytes_t k = a.hex("k"), n = a.hex("n"), ad = a.hex("ad"), m = a.hex("m"), x = a.hex("x");
    size_t outlen = (size_t)a.num("outlen"); unsigned long count = (unsigned long)a.unum("count");
    if (a.has("tape")) tape_set_mask(a.str("tape"), a.hex("tapedata"));
    Sec ks(k), ms(m);            // secrets: key (or password / seed) and message
    InBuf nb(n), adb(ad), xb(x);
    OutBuf out(m.size() + outlen + 64);
    long long ret = 0; size_t olen = 0;
    unsigned long e0 = VALGRIND_COUNT_ERRORS;
    extern bool g_taint_src;
    g_rounds.clear(); g_rec = true; g_taint_tape = true; g_taint_src = true;     // system entropy is secret too
#define AEAD(P, ENC, DEC) \
    if (fn == #P ".enc") { size_t cl = 0; ENC(out.p, &cl, ms.p, ms.n, adb.p, adb.n, nb.p, ks.p); olen = ms.n + 16; } \
    else if (fn == #P ".dec") { /* x = ciphertext||tag (public), plaintext comes out tainted */ \
        size_t ml = 0; ret = DEC(out.p, &ml, xb.p, xb.n, adb.p, adb.n, nb.p, ks.p); olen = xb.n >= 16 ? xb.n - 16 : 0; }
    AEAD(aead128, ascon128_aead_encrypt, ascon128_aead_decrypt)
    else AEAD(aead128a, ascon128a_aead_encrypt, ascon128a_aead_decrypt)
    else AEAD(aead80pq, ascon80pq_aead_encrypt, ascon80pq_aead_decrypt)
    else AEAD(siv128, ascon128_siv_encrypt, ascon128_siv_decrypt)
    else AEAD(siv128a, ascon128a_siv_encrypt, ascon128a_siv_decrypt)
    else AEAD(siv80pq, ascon80pq_siv_encrypt, ascon80pq_siv_decrypt)
#define ISAPF(P) \
    else if (fn == #P ".enc" || fn == #P ".dec") { P##_isap_aead_key_t pk; P##_isap_aead_init(&pk, ks.p); \
        if (fn == #P ".enc") { size_t cl = 0; P##_isap_aead_encrypt(out.p, &cl, ms.p, ms.n, adb.p, adb.n, nb.p, &pk); olen = ms.n + 16; } \
        else { size_t ml = 0; ret = P##_isap_aead_decrypt(out.p, &ml, xb.p, xb.n, adb.p, adb.n, nb.p, &pk); olen = xb.n >= 16 ? xb.n - 16 : 0; } \
        P##_isap_aead_free(&pk); }
    ISAPF(ascon128) ISAPF(ascon128a) ISAPF(ascon80pq)
#define MASKF(P, KT) \
    else if (fn == #P ".menc" || fn == #P ".mdec") { ascon_masked_key_##KT##_t mk; ascon_masked_key_##KT##_init(&mk, ks.p); \
        if (fn == #P ".menc") { size_t cl = 0; P##_masked_aead_encrypt(out.p, &cl, ms.p, ms.n, adb.p, adb.n, nb.p, &mk); olen = ms.n + 16; } \
        else { size_t ml = 0; ret = P##_masked_aead_decrypt(out.p, &ml, xb.p, xb.n, adb.p, adb.n, nb.p, &mk); olen = xb.n >= 16 ? xb.n - 16 : 0; } \
        ascon_masked_key_##KT##_free(&mk); }
    MASKF(ascon128, 128) MASKF(ascon128a, 128) MASKF(ascon80pq, 160)
    else if (fn == "prf") { ascon_prf(out.p, outlen, ms.p, ms.n, ks.p); olen = outlen; }
    else if (fn == "prf_short") { ret = ascon_prf_short(out.p, outlen, ms.p, ms.n, ks.p); olen = outlen; }
    else if (fn == "mac") { ascon_mac(out.p, ms.p, ms.n, ks.p); olen = 16; }
    else if (fn == "mac_verify") { ret = ascon_mac_verify(xb.p, ms.p, ms.n, ks.p); }          // x = presented tag (public)
    else if (fn == "hmac") { ascon_hmac(out.p, ks.p, ks.n, ms.p, ms.n); olen = 32; }
    else if (fn == "hmaca") { ascon_hmaca(out.p, ks.p, ks.n, ms.p, ms.n); olen = 32; }
    else if (fn == "kmac") { ascon_kmac(ks.p, ks.n, ms.p, ms.n, adb.p, adb.n, out.p, outlen); olen = outlen; }
    else if (fn == "kmaca") { ascon_kmaca(ks.p, ks.n, ms.p, ms.n, adb.p, adb.n, out.p, outlen); olen = outlen; }
    else if (fn == "kdf") { ascon_kdf(out.p, outlen, ks.p, ks.n, adb.p, adb.n); olen = outlen; }
    else if (fn == "kdfa") { ascon_kdfa(out.p, outlen, ks.p, ks.n, adb.p, adb.n); olen = outlen; }
    else if (fn == "hkdf") { ret = ascon_hkdf(out.p, outlen, ks.p, ks.n, nb.p, nb.n, adb.p, adb.n); olen = outlen; }     // n = salt, ad = info
    else if (fn == "hkdfa") { ret = ascon_hkdfa(out.p, outlen, ks.p, ks.n, nb.p, nb.n, adb.p, adb.n); olen = outlen; }
    else if (fn == "pbkdf2") { ascon_pbkdf2(out.p, outlen, ks.p, ks.n, nb.p, nb.n, count); olen = outlen; }           // k = password, n = salt
    else if (fn == "pbkdf2_hmac") { ascon_pbkdf2_hmac(out.p, outlen, ks.p, ks.n, nb.p, nb.n, count); olen = outlen; }
    else if (fn == "prng") {       // k = the 32 seed bytes drawn from the system source (secret), m = fed data
        std::vector<std::pair<int, bytes_t> > src; src.push_back(std::make_pair(1, k)); src.push_back(std::make_pair(1, k)); tape_set_src(src);
        ascon_random_state_t st; ascon_random_init(&st); ascon_random_feed(&st, ms.p, ms.n); ascon_random_fetch(&st, out.p, outlen);
        ascon_random_reseed(&st); ascon_random_fetch(&st, out.p, outlen); ascon_random_free(&st); olen = outlen;
    }
    else if (fn.compare(0, 4, "cpp:") == 0) {
        // the C++ cipher classes: construct with a secret key, replace it (set_key) by a second secret key that
        // shares a prefix with the first or equals it, refresh (masked classes), encrypt a secret message, clear
        std::string cls = fn.substr(4); ascon::aead *c = 0; ascon::aead_masked *cm = 0;
        Sec k2(x);                 // x = the second key (secret)
        if (cls == "aead128") c = new ascon::aead128(ks.p); else if (cls == "aead128a") c = new ascon::aead128a(ks.p);
        else if (cls == "aead80pq") c = new ascon::aead80pq(ks.p); else if (cls == "siv128") c = new ascon::siv128(ks.p);
        else if (cls == "siv128a") c = new ascon::siv128a(ks.p); else if (cls == "siv80pq") c = new ascon::siv80pq(ks.p);
        else if (cls == "isap128") c = new ascon::isap128(ks.p, ks.n); else if (cls == "isap128a") c = new ascon::isap128a(ks.p, ks.n);
        else if (cls == "isap80pq") c = new ascon::isap80pq(ks.p, ks.n);
        else if (cls == "aead128_masked") c = cm = new ascon::aead128_masked(ks.p);
        else if (cls == "aead128a_masked") c = cm = new ascon::aead128a_masked(ks.p);
        else if (cls == "aead80pq_masked") c = cm = new ascon::aead80pq_masked(ks.p);
        else fatal("ct.call class %s", cls.c_str());
        c->set_nonce(nb.p, nb.n);
        bool ok = c->set_key(k2.p, k2.n);
        if (cm) cm->randomize_key();
        int r = c->encrypt(out.p, ms.p, ms.n, adb.p, adb.n);
        c->clear(); delete c;
        defined(&ok, sizeof ok); defined(&r, sizeof r);
        ret = (ok && r == (int)ms.n + 16) ? 0 : -1; olen = ms.n + 16;
    }
    else if (fn == "prng_seed") {  // k = system seed, m = the seed saved in non-volatile storage (both secret)
        std::vector<std::pair<int, bytes_t> > src; src.push_back(std::make_pair(1, k)); src.push_back(std::make_pair(1, k)); tape_set_src(src);
        ascon_storage_t stg; memset(&stg, 0, sizeof stg); stg.page_size = 1; stg.size = 64; stg.read = ct_read; stg.write = ct_write;
        g_ct_store = ms.p; g_ct_store_n = ms.n;
        ascon_random_state_t st; ascon_random_init(&st);
        int r1 = ascon_random_load_seed(&st, &stg); ascon_random_fetch(&st, out.p, outlen);
        int r2 = ascon_random_save_seed(&st, &stg); ascon_random_free(&st); olen = outlen;
        ret = (r1 == 0 && r2 == 0) ? 0 : -1;
    }
    else fatal("ct.call fn %s", fn.c_str());
    g_rec = false; g_taint_tape = false; g_taint_src = false;
    defined(&ret, sizeof ret); defined(out.mem, out.n + 2 * OutBuf::GUARD + out.align);
    unsigned long e1 = VALGRIND_COUNT_ERRORS;
    std::vector<long long> rounds(g_rounds.begin(), g_rounds.end());
    Ev ev("ct.call"); ev.s("fn", fn).n("klen", (long long)k.size()).n("adlen", (long long)ad.size()).n("mlen", (long long)m.size()).n("xlen", (long long)x.size())
        .n("nlen", (long long)n.size()).n("outlen", (long long)outlen).n("count", (long long)count).n("ret", ret < 0 ? -1 : ret)
        .n("vg", RUNNING_ON_VALGRIND ? 1 : 0).n("errors", (long long)(e1 - e0)).l("perm", rounds).n("guard", out.guards_ok());
    (void)olen;
    ev.emit();
}
void reg_ct() { reg("ct.call", ct_call); }
