/* Freestanding 32-bit driver for the i386 assembly back end (no 32-bit libc is installed).
 * stdin : records of 1 byte first_round + 40 bytes canonical state
 * stdout: records of 40 bytes canonical state after ascon_permute + 1 flag byte
 *         bit0 callee-saved registers preserved, bit1 stack pointer restored, bit2 canaries intact.
 * The state handed to the assembly is in its documented layout: for each 64-bit word, one 32-bit
 * word of the even-numbered bits followed by one of the odd-numbered bits. */
typedef unsigned int u32; typedef unsigned char u8; typedef unsigned long long u64;
extern void ascon_permute(void *state, unsigned first_round);
extern int tramp_call(void (*fn)(void *, unsigned), void *state, unsigned arg, u32 *report);
static int sys3(int no, int a, void *b, int c) { int r; __asm__ volatile("int $0x80" : "=a"(r) : "0"(no), "b"(a), "c"(b), "d"(c) : "memory"); return r; }
static int rd(void *b, int n) { int got = 0; while (got < n) { int r = sys3(3, 0, (u8 *)b + got, n - got); if (r <= 0) break; got += r; } return got; }
static void wr(const void *b, int n) { int put = 0; while (put < n) { int r = sys3(4, 1, (u8 *)b + put, n - put); if (r <= 0) break; put += r; } }
static void to_sliced(u32 *w, const u8 *b) {
    for (int i = 0; i < 5; ++i) {
        u64 x = 0; for (int j = 0; j < 8; ++j) x = (x << 8) | b[i * 8 + j];
        u32 e = 0, o = 0;
        for (int k = 0; k < 32; ++k) { e |= (u32)((x >> (2 * k)) & 1) << k; o |= (u32)((x >> (2 * k + 1)) & 1) << k; }
        w[2 * i] = e; w[2 * i + 1] = o;
    }
}
static void from_sliced(u8 *b, const u32 *w) {
    for (int i = 0; i < 5; ++i) {
        u64 x = 0;
        for (int k = 0; k < 32; ++k) { x |= (u64)((w[2 * i] >> k) & 1) << (2 * k); x |= (u64)((w[2 * i + 1] >> k) & 1) << (2 * k + 1); }
        for (int j = 7; j >= 0; --j) { b[i * 8 + j] = (u8)x; x >>= 8; }
    }
}
static struct { u32 pre[16]; u32 st[10]; u32 post[16]; } box;
void _start(void) {
    u8 rec[41], out[41]; u32 rep[5];
    while (rd(rec, 41) == 41) {
        for (int i = 0; i < 16; ++i) { box.pre[i] = 0xA5A5A5A5u; box.post[i] = 0x5A5A5A5Au; }
        to_sliced(box.st, rec + 1);
        tramp_call(ascon_permute, box.st, rec[0], rep);
        from_sliced(out, box.st);
        u8 f = 0;
        if (rep[0] == 0x1b1b1b1b && rep[1] == 0x25252525 && rep[2] == 0x3d3d3d3d && rep[3] == 0x4e4e4e4e) f |= 1;
        if (rep[4] == 0) f |= 2;
        int ok = 1; for (int i = 0; i < 16; ++i) if (box.pre[i] != 0xA5A5A5A5u || box.post[i] != 0x5A5A5A5Au) ok = 0;
        if (ok) f |= 4;
        out[40] = f; wr(out, 41);
    }
    sys3(1, 0, 0, 0);
    for (;;) { }
}
