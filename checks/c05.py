"""C05: HKDF / PBKDF2 / KDF."""
from vlib import *
from gens import *
from c07 import hkdf_cases
LEVEL = 'model_checking'

def gen(c):
    rng = c.rng; th = c.tier == 'thorough'
    p = Plan()
    # one-shot HKDF: output lengths around block boundaries, empty salt/info, key lengths around the HMAC block
    outs = [0, 1, 31, 32, 33, 64, 65, 100] + ([255, 256, 1000] if th else [160])
    for kind in ('hkdf', 'hkdfa'):
        for n in outs:
            kl = rng.choice([0, 16, 32, 64, 65, 100]); sl = rng.choice([0, 0, 13, 64, 80]); il = rng.choice([0, 0, 10, 40])
            p.case(['os.hkdf kind=%s key=%s salt=%s info=%s n=%d null_if_empty=%d' % (kind, hx(pattern(rng, kl)), hx(pattern(rng, sl)), hx(pattern(rng, il)), n, rng.randrange(2))],
                   cost=2.0 + n / 8.0)
            c.distinct([(kind, 'os', n)])
        # the 255-block limit, one-shot: refusal of 8161 and (thorough) the honest 8160-byte run
        p.case(['os.hkdf kind=%s key=%s salt=%s info=%s n=8161' % (kind, hx(pattern(rng, 16)), hx(pattern(rng, 8)), hx(pattern(rng, 4)))], cost=1.0)
        p.case(['os.hkdf kind=%s key=%s salt=- info=- n=100000' % (kind, hx(pattern(rng, 16)))], cost=1.0)
        c.distinct([(kind, 'os', 8161), (kind, 'os', 100000)])
        if th:
            p.case(['os.hkdf kind=%s key=%s salt=%s info=%s n=8160' % (kind, hx(pattern(rng, 16)), hx(pattern(rng, 8)), hx(pattern(rng, 4)))], cost=1200.0)
            c.distinct([(kind, 'os', 8160)])
        # incremental object positioned shortly before the limit through its documented public fields
        for start in (253, 254, 255):
            for reqs in ([32, 32, 32, 32], [40, 100], [31, 1, 33, 64, 5], [96, 0, 1, 1], [200], [64, 64, 64]):
                lines = ['hkdf.extract kind=%s obj=1 key=%s salt=%s' % (kind, hx(pattern(rng, 20)), hx(pattern(rng, 7))),
                         'hkdf.expand kind=%s obj=1 info=%s n=%d' % (kind, hx(b'ctx'), rng.choice([32, 40, 64])),
                         'hkdf.poke kind=%s obj=1 counter=%d' % (kind, start)]
                for r in reqs:
                    lines.append('hkdf.expand kind=%s obj=1 info=%s n=%d align=%d' % (kind, hx(b'ctx'), r, rng.randrange(8)))
                lines.append('hkdf.free kind=%s obj=1' % kind)
                p.case(lines, cost=6.0); c.distinct([(kind, 'limit', start, tuple(reqs))])
    hkdf_cases(c, p)
    # PBKDF2: iteration counts around the count>1 / count>2 branches, multi-block output, empty inputs
    counts = [0, 1, 2, 3, 5] + ([10, 17] if th else [])
    lens = [0, 1, 31, 32, 33, 64, 65] + ([100] if th else [])
    for kind in ('pbkdf2', 'pbkdf2_hmac'):
        combos = [(cn, n) for cn in counts for n in lens]
        if not th: combos = [(cn, n) for cn, n in combos if n in (1, 32, 33, 65) or cn in (0, 3)]
        for cn, n in combos:
            pl = rng.choice([0, 8, 24, 64, 65, 100] if kind == 'pbkdf2_hmac' else [0, 8, 24, 40]); sl = rng.choice([0, 8, 16, 33])
            p.case(['os.pbkdf2 kind=%s pw=%s salt=%s count=%d n=%d null_if_empty=%d' % (kind, hx(pattern(rng, pl)), hx(pattern(rng, sl)), cn, n, rng.randrange(2))],
                   cost=0.5 + max(cn, 1) * ((n + 31) // 32) * (0.5 if kind == 'pbkdf2' else 1.2))
            c.distinct([(kind, cn, n)])
    # long outputs: the block index INT(i) beyond one and beyond two bytes; only the named blocks are logged and judged
    for kind in ('pbkdf2', 'pbkdf2_hmac'):
        p.case(['os.pbkdf2_blocks kind=%s pw=%s salt=%s count=1 n=%d blocks=1,2,255,256,257,300' % (kind, hx(pattern(rng, 9)), hx(pattern(rng, 8)), 32 * 299 + 7)], cost=6.0)
        p.case(['os.pbkdf2_blocks kind=%s pw=%s salt=%s count=%d n=%d blocks=1,255,256,65535,65536,65537,65538,65793' % (kind, hx(pattern(rng, 12)), hx(pattern(rng, 5)), rng.choice([0, 1]), 32 * 65792 + 11)], cost=8.0)
        c.distinct([(kind, 'blocks', 300), (kind, 'blocks', 65793)])
    # KDF: one-shot, and the incremental object for every (customisation empty or not) x (declared length class)
    for kind in ('kdf', 'kdfa'):
        for cu in (0, 6):
            for ol in [0, 32, 33, 8191, 8192, 1 << 21, (1 << 24) + 3, (1 << 28) - 1, 1 << 28, (1 << 28) + (1 << 27) + 5, (1 << 29) - 1, 1 << 29, (1 << 29) + 5] + ([1 << k for k in range(6, 28)] if th else []):
                p.case(['sp.init kind=%s obj=1 key=%s custom=%s outlen=%d' % (kind, hx(pattern(rng, rng.choice([0, 16, 20]))), hx(pattern(rng, cu)), ol),
                        'sp.squeeze kind=%s obj=1 n=%d' % (kind, rng.choice([8, 32, 40])), 'sp.squeeze kind=%s obj=1 n=5' % kind,
                        'sp.init kind=%s obj=1 re=1 key=%s custom=%s outlen=%d' % (kind, hx(pattern(rng, 16)), hx(pattern(rng, cu)), ol), 'sp.squeeze kind=%s obj=1 n=33' % kind,
                        'sp.free kind=%s obj=1' % kind], cost=1.0)
                c.distinct([(kind, 'obj', cu, ol)])
    for kind in ('kdf', 'kdfa'):
        for n in [0, 1, 8, 31, 32, 33, 64] + ([200] if th else []):
            kl = rng.choice([0, 7, 8, 16, 33]); cu = rng.choice([0, 0, 5, 8, 17])
            p.case(['os.kdf kind=%s key=%s custom=%s n=%d null_if_empty=%d' % (kind, hx(pattern(rng, kl)), hx(pattern(rng, cu)), n, rng.randrange(2))], cost=0.6)
            c.distinct([(kind, n, cu > 0)])
    return p

def run(c):
    c.mc_bg('MC_Hkdf')
    c.mc_bg('MC_Sponge', disabled=('DoCopy', 'DoSqueeze2', 'ReAbsorb'))
    p = gen(c)
    c.assumptions += ['HKDF limit reached by positioning the documented public `counter` field (quick) and once honestly by an 8160-byte one-shot run (thorough)',
                      'input VALUES sampled; output-length, iteration-count and key-length classes enumerated']
    c.tv(p, 'rel', 'kdf', max_cost=30.0)
    if c.tier != 'thorough':
        c.tv_sample(p, 'kdf', ('c32', 'c64', 'dxor'), k=40, max_cost=15.0, pred=lambda cs: cs[1] < 4)      # per-back-end precomputed states
    if c.tier == 'thorough':
        c.tv(p, 'c32', 'kdf', max_cost=30.0)
    c.cov['rule'] = 'case per (function, output length class, count / key / salt class); distinct = those tuples'
