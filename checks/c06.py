"""C06: SIV and ISAP constructions; persistence and constancy of pre-computed ISAP keys."""
from vlib import *
from gens import *
LEVEL = 'model_checking'
SCH = [('siv128', 16, 8, 0.4), ('siv128a', 16, 16, 0.4), ('siv80pq', 20, 8, 0.4), ('isap128a', 16, 8, 0.6), ('isap128', 16, 8, 3.0), ('isap80pq', 20, 8, 3.5)]

def gen(c):
    rng = c.rng; th = c.tier == 'thorough'
    p = Plan()
    for sc, klen, rate, w in SCH:
        cl = len_classes(rate)
        shapes = [(a, m) for a in cl for m in cl]
        k = 12 if w > 1 else 40
        shapes = rng.sample(shapes, k if not th else min(len(shapes), 3 * k))
        shapes += [(33, 5 * rate + 3), (0, 4 * rate), (2 * rate, 64), (5, 100), (64, 3), (100, 20), (8 * rate + 2, 0)] if w < 1 or th else [(9, 33), (72, 5)]
        if th and w < 1: shapes += [(100, 300), (7, 1024)]
        for adl, ml in shapes:
            kk = pattern(rng, klen); n = pattern(rng, 16); ad = pattern(rng, adl); m = pattern(rng, ml)
            p.case(['aead.enc scheme=%s k=%s n=%s ad=%s m=%s fam=c,cpp,cppba inplace=%d null_if_empty=%d align=%d oalign=%d ba_noad=%d' % (
                sc, hx(kk), hx(n), hx(ad), hx(m), rng.randrange(2), rng.randrange(2), rng.randrange(8), rng.randrange(8), rng.randrange(2))], cost=w + (adl + ml) / 100.0)
            c.distinct([(sc, adl % rate, min(adl // rate, 3), ml % rate, min(ml // rate, 3))])
    # pre-computed key histories: init, packets, save at any point, load into a fresh object, continue, decrypt
    for sc, klen, rate, w in SCH[3:]:
        for h in range((14 if w < 1 else 4) * (3 if th else 1)):
            kk = pattern(rng, klen)
            lines = ['isapkey.init scheme=%s obj=1 k=%s junk=%d' % (sc, hx(kk), rng.randrange(256))]
            live = [1]; nxt = 2; cost = w
            have_ct = False
            for step in range(rng.randrange(3, 7)):
                o = rng.choice(live)
                a = rng.choice(['enc', 'enc', 'dec', 'save', 'saveload', 'forge'])
                if a == 'enc':
                    n = pattern(rng, 16); ad = pattern(rng, rng.choice([0, 3, 8])); m = pattern(rng, rng.choice([0, 1, 8, 13, 20]))
                    lines.append('isapkey.enc scheme=%s obj=%d n=%s ad=%s in=%s inplace=%d save=ct' % (sc, o, hx(n), hx(ad), hx(m), rng.randrange(2)))
                    last = (n, ad); have_ct = True; cost += w
                elif a == 'dec' and have_ct:
                    lines.append('isapkey.dec scheme=%s obj=%d n=%s ad=%s in=@ct inplace=%d' % (sc, o, hx(last[0]), hx(last[1]), rng.randrange(2))); cost += w
                elif a == 'forge' and have_ct:
                    lines.append('isapkey.dec scheme=%s obj=%d n=%s ad=%s in=@ct' % (sc, o, hx(last[0]), hx(last[1] + b'x'))); cost += w
                elif a == 'save':
                    lines.append('isapkey.save scheme=%s obj=%d save=sk align=%d' % (sc, o, rng.randrange(8)))
                elif a == 'saveload' and len(live) < 3:
                    lines.append('isapkey.save scheme=%s obj=%d save=sk' % (sc, o))
                    lines.append('isapkey.load scheme=%s obj=%d saved=@sk junk=%d' % (sc, nxt, rng.randrange(256))); live.append(nxt); nxt += 1
            for o in live: lines.append('isapkey.free scheme=%s obj=%d' % (sc, o))
            p.case(lines, cost=cost); c.distinct([(sc, 'hist', h)])
        # the SAME object re-keyed in place and used again under the SAME nonce: init, init again, load over it
        k1, k2, k3 = pattern(rng, klen, 'rand'), pattern(rng, klen, 'rand'), pattern(rng, klen, 'rand')
        n = hx(pattern(rng, 16)); ad = hx(pattern(rng, 3)); m = hx(pattern(rng, 11))
        e = lambda o: 'isapkey.enc scheme=%s obj=%d n=%s ad=%s in=%s' % (sc, o, n, ad, m)
        p.case(['isapkey.init scheme=%s obj=1 k=%s' % (sc, hx(k1)), e(1),
                'isapkey.init scheme=%s obj=1 re=1 k=%s' % (sc, hx(k2)), e(1), 'isapkey.enc scheme=%s obj=1 n=%s ad=%s in=%s save=ct' % (sc, n, ad, m),
                'isapkey.dec scheme=%s obj=1 n=%s ad=%s in=@ct' % (sc, n, ad),
                'isapkey.init scheme=%s obj=2 k=%s' % (sc, hx(k3)), 'isapkey.save scheme=%s obj=2 save=s3' % sc,
                'isapkey.load scheme=%s obj=1 re=1 saved=@s3' % sc, e(1), e(2),
                'isapkey.free scheme=%s obj=1' % sc, 'isapkey.free scheme=%s obj=2' % sc], cost=7 * w)
        c.distinct([(sc, 'rekey-in-place')])
    # C++ objects that were never given a key, or were cleared: the documented all-zero key, for every class
    for cls in ('isap128', 'isap128a', 'isap80pq', 'siv128', 'siv128a', 'siv80pq'):
        w = {'isap128': 3.0, 'isap80pq': 3.5}.get(cls, 0.5)
        p.case(['cpp.new cls=%s obj=1 how=default' % cls, 'cpp.set_nonce obj=1 n=%s' % hx(pattern(rng, 16)), 'cpp.enc obj=1 m=%s ad=%s form=ptr save=ct' % (hx(pattern(rng, 9)), hx(pattern(rng, 2))),
                'cpp.new cls=%s obj=2 how=key key=%s' % (cls, hx(pattern(rng, 20 if '80pq' in cls else 16, 'rand'))), 'cpp.clear obj=2', 'cpp.set_nonce obj=2 n=%s' % hx(pattern(rng, 16)),
                'cpp.enc obj=2 m=%s ad=- form=ptr' % hx(pattern(rng, 4)), 'cpp.del obj=1', 'cpp.del obj=2'], cost=3 * w)
        c.distinct([(cls, 'cpp-zero-key')])
    return p

def run(c):
    c.mc_bg('MC_IsapKey')
    c.mc_bg('MC_Forge')
    p = gen(c)
    c.assumptions += ['SIV as fixed by the shipped KAT vectors and the property: keystream blocks are squeezed after p^b (doc/siv.dox words the order the other way round)',
                      'ISAP packets are checked by trace validation only (symbolic ISAP terms are beyond TLC); the symbolic model covers save/load identity and the canonical saved form',
                      'key/nonce/data VALUES sampled; length classes and key-object histories enumerated/sampled']
    c.tv(p, 'rel', 'sivisap', max_cost=30.0)
    if c.tier == 'thorough':
        for fl in ('c32', 'dxor', 'c64'):
            c.tv(p, fl, 'sivisap', max_cost=30.0)
    else:
        # the 32-bit bit-sliced back end has its own re-keying bit absorption and byte helpers:
        # a few packets and one key history per scheme there
        q = Plan(); seen = {}
        for lines, cost, tag in p.cases:
            key = (lines[1].split()[0], ([t for t in lines[1].split() if t.startswith('scheme=') or t.startswith('cls=')] + ['scheme=?'])[0])
            if seen.get(key, 0) < (3 if 'siv' in key[1] or key[1] == 'scheme=isap128a' else 1):
                seen[key] = seen.get(key, 0) + 1; q.cases.append((lines, cost, tag))
        c.tv(q, 'c32', 'sivisap', max_cost=12.0)
    c.cov['rule'] = 'case = (scheme, |AD| class, |M| class) x 3 entry points; key-object histories of 3..6 operations over up to 3 objects; distinct = those tuples'
