"""C08: permutation and state primitives on every host back end."""
from vlib import *
from gens import *
LEVEL = 'model_checking'
BACKENDS_Q = ['rel', 'c64', 'c32', 'dxor', 'generic', 'chk']

def states(rng, n):
    out = [bytes(40), bytes([255] * 40), bytes(range(40)), bytes((i * 17 + 3) & 255 for i in range(40))]
    for _ in range(n):
        out.append(bytes(rng.randrange(256) for _ in range(40)))
    return out

def gen(c):
    rng = c.rng
    thorough = c.tier == 'thorough'
    p = Plan()
    pairs = [(o, s) for o in range(41) for s in range(41 - o)]        # all 861 (offset,size) pairs
    # byte-range operations: every pair x 6 operations (+ in-place form of extract_ovw)
    for o, s in pairs:
        st = bytes(rng.randrange(256) for _ in range(40))
        d = lambda: hx(bytes(rng.randrange(256) for _ in range(s)))
        al = rng.randrange(8)
        lines = ['perm.init obj=1 junk=%d' % rng.randrange(256), 'perm.set obj=1 data=%s' % hx(st),
                 'perm.add obj=1 off=%d data=%s align=%d' % (o, d(), al),
                 'perm.extract obj=1 off=%d size=%d align=%d' % (o, s, al),
                 'perm.extract_add obj=1 off=%d data=%s align=%d oalign=%d' % (o, d(), al, rng.randrange(8)),
                 'perm.extract_ovw obj=1 off=%d data=%s inplace=0 align=%d' % (o, d(), al),
                 'perm.extract_ovw obj=1 off=%d data=%s inplace=1 oalign=%d' % (o, d(), al),
                 'perm.overwrite obj=1 off=%d data=%s align=%d' % (o, d(), al),
                 'perm.zero obj=1 off=%d size=%d' % (o, s),
                 'perm.extract obj=1 off=0 size=40',
                 'perm.free obj=1']
        if s == 0:
            lines.insert(2, 'perm.add obj=1 off=%d data=- null_if_empty=1' % o)
        p.case(lines, cost=0.1, tag='range %d,%d' % (o, s))
        c.distinct([('range', o, s)])
    # permutation: all 12 starting rounds on fixed patterns, walking bits and random states
    sts = states(rng, 200 if thorough else 12)
    if thorough:
        for bit in range(320):
            b = bytearray(40); b[bit // 8] = 0x80 >> (bit % 8); sts.append(bytes(b))
    else:
        for bit in rng.sample(range(320), 24):
            b = bytearray(40); b[bit // 8] = 0x80 >> (bit % 8); sts.append(bytes(b))
    for i, st in enumerate(sts):
        lines = ['perm.init obj=1']
        for r in range(12):
            lines += ['perm.set obj=1 data=%s' % hx(st), 'perm.permute obj=1 r=%d' % r]
            c.distinct([('perm', r, st)])
        # chained permutations and a copy
        if i < 4:
            for r in (0, 4, 6): lines += ['perm.set obj=1 data=%s' % hx(st), 'perm.permute obj=1 r=%d via=macro' % r]     # ascon_permute12 / 8 / 6
        # release / acquire (a conversion between the byte form and the operational form on some back ends) changes nothing
        lines += ['perm.permute obj=1 r=%d' % rng.randrange(12), 'perm.release_acquire obj=1', 'perm.permute obj=1 r=0', 'perm.release_acquire obj=1',
                  'perm.add obj=1 off=%d data=%s' % (rng.randrange(33), hx(pattern(rng, 7))), 'perm.release_acquire obj=1',
                  'perm.copy obj=2 src=1 free_src=1', 'perm.release_acquire obj=2', 'perm.permute obj=2 r=6', 'perm.free obj=2']
        p.case(lines, cost=0.5, tag='permute %d' % i)
    return p

def run(c):
    p = gen(c)
    c.assumptions += ['offset/size/starting-round space enumerated exhaustively; state and data VALUES are sampled (fixed patterns, walking bits, seeded random)',
                      'identical trace text from another back end reuses the TLC verdict of the first run (the trace spec is a function of the trace text)']
    build_many(BACKENDS_Q)
    for fl in BACKENDS_Q:
        c.tv(p, fl, 'perm', max_cost=12.0)
    c.cov['exhaustive'] = True
    c.cov['rule'] = 'one case per (offset,size) pair (861) x 6 byte-range operations incl. in-place, and per (state, starting round 0..11); distinct = distinct (op-shape) or (round,state) tuples'
    c.cov['backends'] = BACKENDS_Q
