"""C12: no out-of-bounds access, undefined behaviour or stray output writes."""
from vlib import *
from gens import *
import c01, c02, c03, c04, c05, c06, c07, c08, c10, c13, c14, c15, c17, c20
LEVEL = 'exploration'

class Sub:
    def __init__(self, c): self.c = c; self.rng = c.rng; self.tier = 'quick'; self.cov = {}
    def distinct(self, items): self.c.distinct(items)

FLAVOURS_Q = ['san', 'san+c64', 'san+c32', 'san+dxor', 'san+c64+ks3+ds3+ms3', 'san+ks2+ds2+ms2', 'ks3+ds2+ms3', 'ks2+ds1+ms2', 'san+c32+ks3+ds3+ms3']
FLAVOURS_T = FLAVOURS_Q + ['san+generic', 'san+c64+ks2+ds2+ms2', 'san+ks4+ds4', 'san+c32+ks2+ds1+ms2', 'san+dxor+ks3+ds3+ms3', 'c64+ks3+ds3+ms3', 'san+c64+ks4+ds1']

def maxs_of(fl):
    for t in fl.split('+'):
        if t.startswith('ms'): return int(t[2:])
    return 4

def library_plan(c, maxs):
    sub = Sub(c); rng = c.rng
    p = Plan()
    def take(plan, k):
        p.cases.extend(plan.cases if len(plan.cases) <= k else rng.sample(plan.cases, k))
    take(c01.gen(sub), 60); take(c02.gen(sub), 30); take(c03.gen(sub), 80); take(c04.gen(sub), 60); take(c05.gen(sub), 50); take(c06.gen(sub), 40)
    q = Plan(); c07.transitions(sub, q); c07.walks(sub, q, 60); c07.sessions(sub, q, 30); c07.hkdf_cases(sub, q); take(q, 250)
    take(c08.gen(sub), 200); take(c14.gen(sub), 30); take(c15.gen(sub), 30)
    q = Plan(); c10.toolkit(sub, q, maxs, False); c10.aead(sub, q, False); take(q, 80)
    take(c13.plan_of(sub, c13.histories(), maxs), 150)
    take(c17.cipher_plan(sub), 60); take(c20.hex_plan(sub), 10)
    return p

def tool_scenarios(c):
    rng = c.rng; S = []
    nm = lambda n: 'n' * n
    # file names of length 1..8 and around the BUFSIZ-sized name buffer; with and without the .ascon suffix
    for mode in ('-e', '-d', None):
        for n in [1, 2, 3, 5, 6, 7, 8, 200]:
            argv = ([mode] if mode else []) + ['-p', 'x', nm(n)]
            S.append({'kind': 'args', 'tool': 'asconcrypt', 'argv': argv, 'files': {nm(n): list(b'data')}, 'tag': 'name%d%s' % (n, mode or 'auto')})
    S.append({'kind': 'args', 'tool': 'asconcrypt', 'argv': ['-d', '-p', 'x', 'ab'], 'tag': 'short-name-decrypt'})
    S.append({'kind': 'args', 'tool': 'asconcrypt', 'argv': ['-p', 'x', 'abc.ascon'], 'files': {'abc.ascon': list(b'junk')}, 'tag': 'auto-decrypt'})
    for n in (4090, 4096, 8185, 8186, 8187, 8191, 8192, 8193, 8200):      # longer than NAME_MAX: open fails, the name arithmetic must still be safe
        for mode in ('-e', '-d'):
            S.append({'kind': 'args', 'tool': 'asconcrypt', 'argv': [mode, '-p', 'x', 'd/' * 0 + nm(n - 6) + '.ascon'], 'tag': 'longname%d%s' % (n, mode)})
            S.append({'kind': 'args', 'tool': 'asconcrypt', 'argv': [mode, '-p', 'x', nm(n)], 'tag': 'longname%d%s' % (n, mode)})
    for n in (0, 1, 1022, 1023, 1024, 1025, 5000):
        S.append({'kind': 'args', 'tool': 'asconcrypt', 'argv': ['-e', '-p', 'p' * n, 'in.bin'], 'files': {'in.bin': list(b'hello')}, 'tag': 'pw%d' % n})
    for n, tail in [(40, b'\n'), (1022, b'\n'), (1023, b'\n'), (1023, b''), (1024, b''), (1024, b'\n'), (1025, b''), (5000, b''), (10, b'\0abc\n'), (0, b''), (1000, b'\nrest' * 10)]:
        S.append({'kind': 'args', 'tool': 'asconcrypt', 'argv': ['-e', '-k', 'key.txt', 'in.bin'], 'files': {'in.bin': list(b'hello'), 'key.txt': list(b'k' * n + tail)}, 'tag': 'keyfile%d_%d' % (n, len(tail))})
    # asconsum: check files with long lines, long names, binary junk
    for n in (60, 63, 64, 65, 1000, 1021, 1022, 1023, 1024, 1025, 1026, 3000):
        line = ('ab' * 32 + '  ' + 'f' * n + '\n').encode()
        S.append({'kind': 'args', 'tool': 'asconsum', 'argv': ['-c', 'sums.txt'], 'files': {'sums.txt': list(line)}, 'tag': 'checkline%d' % n})
    for junk in (b'', b'\n', b'a', b'ab' * 31 + b'a', b'ab' * 32, b'ab' * 32 + b' ', b'ab' * 32 + b'  ', b'\xff' * 200, b'ab' * 40 + b'  x\n', b'0' * 5000):
        S.append({'kind': 'args', 'tool': 'asconsum', 'argv': ['-c', 'sums.txt'], 'files': {'sums.txt': list(junk)}, 'tag': 'checkjunk%d' % len(junk)})
    # lines as fgets delivers them: a NUL first (strlen 0), in the middle, CR / LF alone and in every order, at the buffer size
    good = b'ab' * 32 + b'  f.bin'
    for i, junk in enumerate((b'\x00', b'\x00\n', b'\x00abc\n', good + b'\n\x00' + good + b'\n', good + b'\n\x00\n' + good + b'\n', b'ab' * 32 + b'\x00 f.bin\n', good[:20] + b'\x00' + good[20:] + b'\n',
                             b'\r', b'\r\n', b'\n\r', b'\n\n', b'\r\r\n', good + b'\r', good + b'\r\n', good + b'\n\r\n', b' ' * 70 + b'\n', b'\x00' * 1023, b'\x00' * 1024 + b'\n', b'a' * 1022 + b'\x00\n',
                             b'\x00' + b'\n' * 5, b'\n' + b'\x00' * 3 + b'\n')):
        S.append({'kind': 'args', 'tool': 'asconsum', 'argv': ['-c', 'sums.txt'], 'files': {'sums.txt': list(junk), 'f.bin': list(b'x')}, 'tag': 'checknul%d' % i})
    for n in (1, 255, 300, 5000):
        S.append({'kind': 'args', 'tool': 'asconsum', 'argv': ['-x', nm(n)], 'tag': 'sumname%d' % n})
    # a few full scenarios under the sanitizers
    for sz in (0, 1, 8191, 8192, 8193, 20000):
        S.append({'kind': 'crypt', 'what': 'roundtrip', 'size': sz, 'pw': 'pw'})
    S.append({'kind': 'crypt', 'what': 'trunc', 'size': 20, 'pw': 's', 'len': 50}); S.append({'kind': 'crypt', 'what': 'flip', 'size': 20, 'pw': 's', 'pos': 90, 'mask': 4})
    for alg in 'haxy': S.append({'kind': 'sum', 'alg': alg, 'content': list(pattern(rng, 8200, 'rand'))})
    for s in S: c.distinct([('tool', s.get('tag') or (s['kind'], s.get('size'), s.get('alg')))])
    return S

def run(c):
    th = c.tier == 'thorough'
    c.assumptions += ['the call-shape space comes from the plans of the other properties (every object state x call x length class, alignments 0..7, NULL for empty inputs, exact-size heap buffers, in-place), re-run under ASan+UBSan builds of several configurations; sanitizers see executed C/C++ paths only',
                      'assembly code is not instrumented: stray WRITES next to driver-owned objects and output buffers are caught by canaries (also in the non-sanitizer ms3/ms2 assembly builds), stray READS by assembly are not observable',
                      'the trace spec for this property is TraceLite.tla (no fault, canaries intact, trace complete); functional correctness of the same traces is judged by Trace.tla in the other checks']
    fls = FLAVOURS_T if th else FLAVOURS_Q
    def try_build(fl):
        try: build(fl, allow_fail=True)
        except Exception: pass
    with cf.ThreadPoolExecutor(max_workers=6) as ex: list(ex.map(try_build, fls))
    for fl in fls:
        p = library_plan(c, maxs_of(fl))
        c.tv(p, fl, 'mem', tracecfg='TraceLite', max_cost=40.0, env={'ASAN_OPTIONS': 'detect_leaks=1:abort_on_error=0:exitcode=99:detect_stack_use_after_return=1'})
    # the entropy back end on a scripted getrandom(): every sequence of up to three behaviours (short count of 1 / 10 / 31
    # bytes, EINTR, EAGAIN, hard error, full) for every caller that owns a seed buffer
    import itertools
    p = Plan(); rng = c.rng
    beh = ['4:' + hx(pattern(rng, 1, 'rand')), '4:' + hx(pattern(rng, 10, 'rand')), '4:' + hx(pattern(rng, 31, 'rand')), '2:' + hx(pattern(rng, 32, 'rand')), '3:' + hx(pattern(rng, 32, 'rand')), '0:', '1:' + hx(pattern(rng, 32, 'rand'))]
    seqs = [s for k in (1, 2, 3) for s in itertools.product(beh, repeat=k)]
    if not th: seqs = [s for s in seqs if len(s) < 3] + rng.sample([s for s in seqs if len(s) == 3], 40)
    for s in seqs:
        src = ','.join(s)
        p.case(['prng.init obj=1 src=%s' % src, 'prng.fetch obj=1 n=8', 'prng.reseed obj=1', 'prng.free obj=1'], cost=0.3)
        p.case(['prng.init obj=1 src=%s' % ','.join(['1:' + hx(pattern(rng, 32, 'rand'))] + list(s)), 'prng.reseed obj=1', 'prng.fetch obj=1 n=40', 'prng.free obj=1'], cost=0.3)
        c.distinct([('getrandom', tuple(x.split(':')[0] + str(len(x)) for x in s))])
    c.tv(p, 'san+sysrng', 'memsys', tracecfg='TraceLite', max_cost=40.0, env={'ASAN_OPTIONS': 'detect_leaks=1:abort_on_error=0:exitcode=99:detect_stack_use_after_return=1'})
    for kind, planf in (('cxx', c17.cxx_plan), ('nostl', c20.ba_plan)):
        drv, cmd, out = build_extra(kind, 'san')
        if drv: c.tv(planf(Sub(c)), 'san', 'mem' + kind, drv=drv, tracecfg='TraceLite', max_cost=40.0)
    c.tv_tools(tool_scenarios(c), 'san', 'toolsan', per_shard=25)
    c.cov['rule'] = 'call shapes taken from the plans of C01-C08, C10, C13-C15, C17, C20 x sanitizer/canary builds; tool argument vectors by length class; distinct = plan cases and argument-vector classes'
