"""C19: command-line tools round-trip, detect tampering and fail loudly on I/O errors."""
from vlib import *
from gens import *
LEVEL = 'model_checking'
BUF = 8192

def scenarios(c):
    rng = c.rng; th = c.tier == 'thorough'
    S = []
    pws = ['secret', '', 'x' * 1023, 'p w\t!', 'éè'.encode('utf8').decode('latin1')]
    sizes = [0, 1, 15, 16, 17, BUF - 16, BUF - 1, BUF, BUF + 1, 2 * BUF, 2 * BUF + 5] + ([3 * BUF, 100000] if th else [])
    for sz in sizes:
        S.append({'kind': 'crypt', 'what': 'roundtrip', 'size': sz, 'pw': rng.choice(pws)}); c.distinct([('rt', sz)])
    # input arriving through a pipe in bursts: a short read() is not the end of the stream
    for sz, ce, cd in ((20000, [3000], [40, 5000]), (1500, [1, 700], [10, 77, 1516]), (1024, [1024], [56]), (9000, [1024, 2048, 8999], [72, 1096])):
        S.append({'kind': 'crypt', 'what': 'roundtrip', 'size': sz, 'pw': rng.choice(pws), 'pipe_enc': ce, 'pipe_dec': cd}); c.distinct([('pipe', sz)])
    S.append({'kind': 'crypt', 'what': 'roundtrip', 'size': 100, 'keyfile': list(b'my key file password\nsecond line ignored\n')})
    S.append({'kind': 'crypt', 'what': 'roundtrip', 'size': 100, 'keyfile': list(b'no newline at end')})
    for sz in (0, 20, BUF):
        S.append({'kind': 'crypt', 'what': 'wrongpw', 'size': sz, 'pw': 'secret', 'pw2': 'secreu'})
        S.append({'kind': 'crypt', 'what': 'wrongpw', 'size': sz, 'pw': 'secret', 'pw2': ''})
    # a bit flip at EVERY byte of a small encrypted file, at all header/key-block/tag bytes and sampled body bytes of large ones
    small = 20; enc_small = small + 96
    for pos in range(enc_small):
        S.append({'kind': 'crypt', 'what': 'flip', 'size': small, 'pw': 's', 'pos': pos, 'mask': 1 << rng.randrange(8)}); c.distinct([('flip', small, pos)])
    for sz in ([BUF, 2 * BUF + 5] if th else [BUF + 1]):
        encsz = sz + 96
        poss = list(range(80)) + list(range(encsz - 16, encsz)) + rng.sample(range(80, encsz - 16), 64 if th else 24) + [80 + BUF - 17, 80 + BUF - 16, 80 + BUF - 1, 80 + BUF]
        for pos in sorted(set(p for p in poss if p < encsz)):
            S.append({'kind': 'crypt', 'what': 'flip', 'size': sz, 'pw': 's', 'pos': pos, 'mask': 1 << rng.randrange(8)}); c.distinct([('flip', sz, pos)])
    # truncation at EVERY length of the small file; around every structural boundary of a large one
    for L in range(enc_small):
        S.append({'kind': 'crypt', 'what': 'trunc', 'size': small, 'pw': 's', 'len': L}); c.distinct([('trunc', small, L)])
    for sz in (0, BUF, BUF + 1, 2 * BUF):
        encsz = sz + 96
        for L in sorted(set([0, 27, 28, 79, 80, 81, 95, 96, 97, encsz - 17, encsz - 16, encsz - 1, 80 + BUF - 16, 80 + BUF, 80 + BUF + 16] + ([encsz - k for k in range(2, 40)] if th else []))):
            if 0 <= L < encsz: S.append({'kind': 'crypt', 'what': 'trunc', 'size': sz, 'pw': 's', 'len': L}); c.distinct([('trunc', sz, L)])
    for sz in (0, 20, BUF):
        for extra in ([0], [1, 2, 3], [0] * 16):
            S.append({'kind': 'crypt', 'what': 'extend', 'size': sz, 'pw': 's', 'extra': extra})
    # I/O faults: the k-th open/read/write/getrandom for EVERY k, as error, short write, and EINTR
    for sz in ((0, 100, BUF, 2 * BUF + 5) if th else (100, 2 * BUF + 5)):
        nblk = sz // BUF + 2
        for what in ('fault_enc', 'fault_dec'):
            for op, kmax in (('open', 2), ('read', 2 * nblk + 4), ('write', 2 * nblk + 8), ('getrandom', 2 if what == 'fault_enc' else 0)):
                for k in range(1, kmax + 1):
                    for kind in (('error', 'short', 'eintr', 'burst') if op == 'write' else (('error',) if op == 'open' else ('error', 'eintr'))):
                        S.append({'kind': 'crypt', 'what': what, 'size': sz, 'pw': 's', 'fault': {'op': op, 'k': k, 'kind': kind}}); c.distinct([(what, sz, op, k, kind)])
    # every second failing scenario finds an older file under the output name: it must be gone afterwards too
    n = 0
    for sc in S:
        if sc['kind'] == 'crypt' and sc['what'] in ('wrongpw', 'flip', 'trunc', 'extend', 'fault_enc', 'fault_dec'):
            n += 1
            if n % 2 == 0: sc['preexist'] = 1
    # key file generation: healthy, failing source, failing open, failing k-th write
    S.append({'kind': 'genkey'})
    for op, kmax in (('getrandom', 1), ('open', 1), ('write', 4)):
        for k in range(1, kmax + 1):
            for kind in (('error', 'short') if op == 'write' else ('error',)):
                S.append({'kind': 'genkey', 'fault': {'op': op, 'k': k, 'kind': kind}}); c.distinct([('genkey', op, k, kind)])
    # asconsum: digests of the four algorithms judged by the TLA+ definitions; check mode
    for alg in 'haxy':
        for sz in [0, 1, 7, 8, 9, 100] + ([BUF - 1, BUF, BUF + 1] if alg == 'h' or th else [BUF]):
            S.append({'kind': 'sum', 'alg': alg, 'content': list(pattern(rng, sz, 'rand')), 'name': rng.choice(['data.bin', 'a b.txt', 'x'])}); c.distinct([('sum', alg, sz)])
        S.append({'kind': 'sumcheck', 'alg': alg, 'files': [{'content': list(pattern(rng, 10))}, {'content': list(pattern(rng, 5))}]})
        S.append({'kind': 'sumcheck', 'alg': alg, 'files': [{'content': list(pattern(rng, 10))}, {'content': list(pattern(rng, BUF + 3)), 'modify': rng.randrange(1, BUF)}, {'content': [1, 2, 3]}]})
        S.append({'kind': 'sumcheck', 'alg': alg, 'files': [{'content': [9]}, {'content': [7], 'remove': 1}]})
        S.append({'kind': 'sumcheck', 'alg': alg, 'files': [{'content': [9]}], 'bad_lines': ['not a checksum line', 'abcd  short', 'g' * 64 + '  f0.bin']})
        S.append({'kind': 'sumcheck', 'alg': alg, 'files': [{'content': [], 'modify': 1}]})
    # check lists as other tools and editors leave them: CRLF, upper-case digests, no newline after the last line, from stdin
    for alg in ('h', 'a'):
        for shape in ({'no_final_newline': 1}, {'eol': 'crlf'}, {'eol': 'crlf', 'no_final_newline': 1}, {'upper': 1}, {'stdin': 1}, {'stdin': 1, 'no_final_newline': 1}):
            for nf in (1, 3):
                sc = {'kind': 'sumcheck', 'alg': alg, 'files': [{'content': list(pattern(rng, rng.choice([0, 5, 100])))} for _ in range(nf)]}
                if nf == 3: sc['files'][1]['modify'] = 2
                sc.update(shape); S.append(sc); c.distinct([('listshape', alg, tuple(sorted(shape)), nf)])
    # asconsum with a read error at the k-th read of the data file (injected with strace: the tool reads through stdio)
    for alg in 'haxy':
        for sz in (100, BUF + BUF // 2):
            for k in (1, 2, 3, 4):
                for chk in (0, 1):
                    if alg != 'h' and (k > 3 or sz == 100) and c.tier != 'thorough': continue
                    S.append({'kind': 'sumfault', 'alg': alg, 'content': list(pattern(rng, sz, 'rand')), 'k': k, 'check': chk}); c.distinct([('sumfault', alg, sz, k, chk)])
    # ... and at the k-th read of the checksum list in check mode (120 entries = three stdio buffers)
    for alg in ('h', 'y') if c.tier != 'thorough' else 'haxy':
        for k in (1, 2, 3, 4, 9):
            S.append({'kind': 'sumlistfault', 'alg': alg, 'nfiles': 120, 'k': k}); c.distinct([('sumlistfault', alg, k)])
    # failure counts around the 8-bit wrap of an exit status
    for chk in (0, 1):
        for nfail in (0, 1, 255, 256, 257, 512):
            S.append({'kind': 'summany', 'alg': 'h', 'nfail': nfail, 'check': chk}); c.distinct([('summany', chk, nfail)])
    # key files whose first lines differ only beyond the 1023 bytes a password may have, at the limit, and early
    base = bytes((65 + i % 26) for i in range(1100))
    for cut, tail1, tail2 in ((1030, b'-first', b'-other'), (1023, b'', b'X'), (1022, b'A', b'B'), (40, b'1', b'2'), (2000, b'aa', b'ab')):
        S.append({'kind': 'crypt', 'what': 'wrongkeyfile', 'size': 64, 'keyfile': list(base[:1] * 0 + (base * 2)[:cut] + tail1 + b'\n'), 'keyfile2': list((base * 2)[:cut] + tail2 + b'\n')})
        c.distinct([('wrongkeyfile', cut)])
    # ... and when the k-th write to standard output fails (800 names = several stdio buffers of output)
    for alg in ('h',) if c.tier != 'thorough' else 'haxy':
        for chk in (0, 1):
            for k in (1, 2, 3, 30):
                S.append({'kind': 'sumwritefault', 'alg': alg, 'nfiles': 800 if not chk else 300, 'k': k, 'check': chk}); c.distinct([('sumwritefault', alg, chk, k)])
    return S

def run(c):
    c.mc_bg('SysTools')
    c.mc_bg('SysSum')
    c.mc_bg('SysSum', 'SysSumNegList', must_fail=True)      # a failed read of the checksum list taken for end of file must be refuted
    c.mc_bg('SysSum', 'SysSumNegOut', must_fail=True)       # never looking at standard output must be refuted
    c.mc_bg('SysTools', 'SysToolsNegRead', must_fail=True)  # "the first short read is the end of the stream" must be refuted
    c.mc_bg('SysTools', 'SysToolsNegResume', must_fail=True)   # "after a partial write, send the buffer again from its start" must be refuted
    c.mc_bg('SysTools', 'SysToolsNeg', must_fail=True)      # the "!safe_file_write()" convention with -1 on error must be refuted
    c.assumptions += ['the process model abstracts cryptography (authentic / modified flags) and the 8192-round PBKDF2; the real binaries are judged on exit status, existence of the output file and byte equality of the round trip',
                      'I/O faults are injected with an LD_PRELOAD shim at the k-th open/read/write/getrandom for every k the run reaches (error, short write then ENOSPC, EINTR once, and for write a transient partial transfer - a third of the buffer, then half of the rest - after which nothing may be lost); asconsum reads through stdio, so its read errors are injected with strace (inject=read:error=EIO:when=k on the data file)',
                      'a modified or truncated file verifying by chance has probability 2^-128']
    S = scenarios(c)
    rc, out = sh(['strace', '-o', '/dev/null', '-e', 'trace=read', 'true'], timeout=30)
    if rc != 0:      # ptrace not available here: the stdio read-fault scenarios cannot be run (said so in the evidence)
        S = [s for s in S if s['kind'] not in ('sumfault', 'sumlistfault', 'sumwritefault')]
        c.assumptions.append('strace could not attach in this environment: asconsum read-error scenarios were skipped in this run')
    c.tv_tools(S, 'rel', 'tools', per_shard=30)
    c.cov['exhaustive'] = True
    c.cov['rule'] = 'scenario = (file size, password) round trip / bit flip at a byte / truncation at a length / fault at the k-th call of an operation; distinct = those tuples'
