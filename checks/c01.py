"""C01: AEAD encryption computes the ASCON v1.2 function; all entry-point families agree."""
from vlib import *
from gens import *
LEVEL = 'model_checking'
SCHEMES = [('aead128', 16, 8), ('aead128a', 16, 16), ('aead80pq', 20, 8)]
FAMS = 'c,inc,masked,cpp,cppba,cppm'

def gen(c):
    rng = c.rng; thorough = c.tier == 'thorough'
    p = Plan()
    for sc, klen, rate in SCHEMES:
        cl = len_classes(rate)
        cases = [(a, m) for a in cl for m in cl]
        if not thorough:
            # full grid on the diagonal classes, sampled elsewhere
            cases = [(a, m) for (a, m) in cases if a in (0, 1, rate, 2 * rate + 1) or m in (0, rate - 1, rate, 3 * rate + 5)]
            cases = rng.sample(cases, min(len(cases), 34))
        extra = [(rng.randrange(0, 70), rng.randrange(0, 200)) for _ in range(40 if thorough else 6)]
        if thorough:
            extra += [(rate * k, rate * j) for k in (4, 8) for j in (16, 64)] + [(300, 1024), (5, 4096), (1000, 33)]
        else:
            extra += [(33, 40), (rate * 4, rate * 8)]      # AD beyond the 32 bytes of every KAT vector
        # more than 255 rate blocks of associated data / of message (block counters wider than a byte)
        extra += [(256 * rate + rng.choice([0, 3]), rng.choice([0, 5])), (rng.choice([0, 2]), 256 * rate + rng.choice([0, rate - 1]))]
        for adl, ml in cases + extra:
            k = pattern(rng, klen); n = pattern(rng, 16); ad = pattern(rng, adl); m = pattern(rng, ml)
            ch = ','.join(map(str, chunks(rng, ml, rate)))
            tape = rng.choice(['zero', 'ones', 'rand', 'rand', 'alt', 'const', 'Frand'])     # Frand: the system source fails, the result must be the same
            line = 'aead.enc scheme=%s k=%s n=%s ad=%s m=%s fam=%s chunks=%s inplace=%d null_if_empty=%d align=%d oalign=%d tape=%s tapedata=%s ba_noad=%d' % (
                sc, hx(k), hx(n), hx(ad), hx(m), FAMS, ch, rng.randrange(2), rng.randrange(2), rng.randrange(8), rng.randrange(8),
                tape, hx(pattern(rng, 8, 'rand')), rng.randrange(2))
            p.case([line], cost=0.3 + (adl + ml) / 150.0, tag='%s ad=%d m=%d' % (sc, adl, ml))
            c.distinct([(sc, adl % rate, min(adl // rate, 3), ml % rate, min(ml // rate, 3))])
    return p

def run(c):
    c.mc_bg('MC_Aead', 'MC_Aead' if c.tier == 'thorough' else 'MC_AeadQ')
    p = gen(c)
    c.assumptions += ['structure (lengths mod rate, block counts, families, in-place, NULL-for-empty, alignment, chunkings) enumerated/sampled by class; key/nonce/data VALUES sampled (random, all-0, all-FF, counting, single bit)',
                      'expected values are computed by TLC from AsconModes.tla (anchored on the reference KAT vectors by KatCheck)']
    # several packets on one incremental object (the second start() finds a used state), re-init in between
    from c07 import sessions
    sessions(c, p, 200 if c.tier == 'thorough' else 20)
    c.tv(p, 'rel', 'enc', max_cost=25.0)
    if c.tier == 'thorough':
        for fl in ('c64', 'c32', 'dxor', 'ks3+ds2', 'c64+ks2+ds1+ms2'):
            c.tv(p, fl, 'enc', max_cost=25.0)
    else:
        # the other back ends have their own absorb / encrypt macros, the share configurations their own conversions
        c.tv_sample(p, 'enc', ('c32', 'c64', 'dxor', 'ks3+ds2', 'c64+ks2+ds1+ms2'), k=45, max_cost=15.0, pred=lambda cs: cs[1] < 8)
    c.cov['rule'] = 'case = (scheme, |AD| class, |M| class) with seeded values; 6 entry-point families per case; distinct = (scheme, |AD| mod rate, AD blocks, |M| mod rate, M blocks)'
