"""C02: decryption inverts encryption, rejects every forgery, wipes plaintext."""
from vlib import *
from gens import *
from c07 import sessions
LEVEL = 'model_checking'
SCHEMES = [('aead128', 16, 8, 'c,inc,masked,cpp,cppba,cppm'), ('aead128a', 16, 16, 'c,inc,masked,cpp,cppba,cppm'), ('aead80pq', 20, 8, 'c,inc,masked,cpp,cppba,cppm'),
           ('siv128', 16, 8, 'c,cpp,cppba'), ('siv128a', 16, 16, 'c,cpp,cppba'), ('siv80pq', 20, 8, 'c,cpp,cppba'),
           ('isap128', 16, 8, 'c,cpp,cppba'), ('isap128a', 16, 8, 'c,cpp,cppba'), ('isap80pq', 20, 8, 'c,cpp,cppba')]

def muts_for(rng, klen, adl, ml, full):
    """mutations of (k, n, ad, ct): a flip of one random bit in EVERY byte of ct||tag, every one of
    the 128 tag bits, every AD byte, all nonce bits, all key bits, every truncation, extensions"""
    ctl = ml + 16
    mu = ['id']
    mu += ['c:%d:%d' % (i, 1 << rng.randrange(8)) for i in range(ctl)]
    tagbits = range(128) if full else rng.sample(range(128), 24)
    mu += ['c:%d:%d' % (ml + b // 8, 1 << (b % 8)) for b in tagbits]
    # paired differences in both halves of the tag (a comparison that folds words must not cancel them)
    for j in range(8):
        mu += ['cc:%d:%d:%d' % (ml + j, ml + j + 8, rng.randrange(1, 256))]
    for dist in (1, 2, 4):
        for _ in range(4 if full else 2):
            j = rng.randrange(16 - dist); mu += ['cc:%d:%d:%d' % (ml + j, ml + j + dist, 1 << rng.randrange(8))]
    for _ in range(12 if full else 4):
        a, b = rng.sample(range(ctl), 2); mu += ['cc:%d:%d:%d' % (a, b, rng.randrange(1, 256))]
    mu += ['a:%d:%d' % (i, 1 << rng.randrange(8)) for i in range(adl)]
    nb = range(128) if full else rng.sample(range(128), 20)
    mu += ['n:%d:%d' % (b // 8, 1 << (b % 8)) for b in nb]
    kb = range(klen * 8) if full else rng.sample(range(klen * 8), 20)
    mu += ['k:%d:%d' % (b // 8, 1 << (b % 8)) for b in kb]
    mu += ['c:%d:%d' % (rng.randrange(ctl), rng.randrange(1, 256)) for _ in range(16 if full else 4)]
    mu += ['trunc:%d' % j for j in range(0, ctl)]
    mu += ['ext:%s' % hx(pattern(rng, n, 'rand')) for n in (1, 2, 3)]
    mu += ['adext:00', 'adext:80'] + (['adtrunc:%d' % (adl - 1)] if adl else [])
    return mu

def gen(c):
    rng = c.rng; th = c.tier == 'thorough'
    p = Plan()
    for sc, klen, rate, fams in SCHEMES:
        slow = sc in ('isap128', 'isap80pq')
        shapes = [(0, 0), (0, 1), (1, rate - 1), (rate, rate), (rate + 1, 2 * rate + 1), (3, 3 * rate + 5), (2 * rate, 5)]
        if th: shapes += [(rng.randrange(0, 40), rng.randrange(0, 100)) for _ in range(6)]
        if not slow: shapes += [(5 * rate + 3, 5 * rate + 7)]       # beyond four rate blocks (unrolled loops) in both AD and payload
        if slow and not th: shapes = shapes[:3]
        for adl, ml in shapes:
            k = pattern(rng, klen); n = pattern(rng, 16); ad = pattern(rng, adl); m = pattern(rng, ml, 'rand' if ml else None)
            if ml and not any(m): m = bytes([1]) + m[1:]       # a non-zero plaintext makes the wipe observable
            mu = muts_for(rng, klen, adl, ml, th)
            ch = ','.join(map(str, chunks(rng, ml, rate)))
            line = 'aead.forge scheme=%s k=%s n=%s ad=%s m=%s fam=%s chunks=%s inplace=%d null_if_empty=%d tape=%s muts=%s' % (
                sc, hx(k), hx(n), hx(ad), hx(m), fams, ch, rng.randrange(2), rng.randrange(2), rng.choice(['zero', 'rand', 'ones', 'Frand', 'Fzero']), ';'.join(mu))   # F...: the system entropy source reports failure throughout - acceptance must not depend on it
            p.case([line], cost=(4.0 if slow else 1.0) + len(mu) / 400.0)
            c.distinct([(sc, adl, ml, x.split(':')[0]) for x in mu])
            c.cov['forgeries'] = c.cov.get('forgeries', 0) + (len(mu) - 1) * len(fams.split(','))
            # fully recomputed decryptions: the valid ciphertext and two forged ones (TLC evaluates Dec itself)
            for j in range(2 if (th or not slow) else 1):
                m2 = pattern(rng, ml); ad2 = pattern(rng, adl)
                p.case(['aead.enc scheme=%s k=%s n=%s ad=%s m=%s fam=c' % (sc, hx(k), hx(n), hx(ad2), hx(m2))], cost=(2.0 if slow else 0.3))
    # associated data longer than 255 rate blocks: a flip in its first, middle and last byte must still be rejected
    for sc, klen, rate, fams in SCHEMES[:3]:
        adl = 256 * rate + rng.choice([0, 5]); ml = rng.choice([0, 3])
        k = pattern(rng, klen); n = pattern(rng, 16); ad = pattern(rng, adl, 'rand'); m = pattern(rng, ml, 'rand')
        mu = ['id', 'a:0:1', 'a:%d:16' % (adl // 2), 'a:%d:128' % (adl - 1), 'a:%d:1' % (8 * rate), 'adext:00', 'adtrunc:%d' % (adl - 1), 'c:%d:1' % ml, 'k:0:1', 'n:15:1']
        p.case(['aead.forge scheme=%s k=%s n=%s ad=%s m=%s fam=%s muts=%s tape=rand' % (sc, hx(k), hx(n), hx(ad), hx(m), fams, ';'.join(mu))], cost=16.0)
        c.distinct([(sc, 'longad', x.split(':')[0]) for x in mu])
    # explicit decrypt events on arbitrary (not valid) inputs incl. every length below the tag size
    for sc, klen, rate, fams in SCHEMES:
        for L in list(range(0, 17)) + [rate + 16, 40]:
            k = pattern(rng, klen); n = pattern(rng, 16)
            if sc in ('isap128', 'isap80pq') and L >= 16 and not th: continue
            p.case(['aead.dec scheme=%s k=%s n=%s ad=%s ct=%s fam=%s inplace=%d' % (sc, hx(k), hx(n), hx(pattern(rng, rng.choice([0, 3]))), hx(pattern(rng, L, 'rand')), fams, rng.randrange(2))],
                   cost=0.2 if L < 16 else 1.0)
            c.distinct([(sc, 'declen', L)])
    return p

def loaded_keys(c, p):
    """ISAP key objects re-created from their saved form: they accept what the original made and reject
    what a key differing in one bit made, and the reverse (a loaded key is the key, not just a round trip)"""
    rng = c.rng
    for sc, klen, w in (('isap128a', 16, 0.6), ('isap128', 16, 3.0), ('isap80pq', 20, 3.5)):
        for rep in range(2 if (c.tier == 'thorough' or w < 1) else 1):
            k = bytearray(pattern(rng, klen, 'rand')); k2 = bytearray(k); k2[rng.randrange(klen)] ^= 1 << rng.randrange(8)
            n = hx(pattern(rng, 16)); ad = hx(pattern(rng, rng.choice([0, 5]))); m = hx(pattern(rng, rng.choice([0, 9, 17])))
            p.case(['isapkey.init scheme=%s obj=1 k=%s' % (sc, hx(bytes(k))), 'isapkey.save scheme=%s obj=1 save=s1' % sc,
                    'isapkey.init scheme=%s obj=2 k=%s' % (sc, hx(bytes(k2))), 'isapkey.save scheme=%s obj=2 save=s2' % sc,
                    'isapkey.load scheme=%s obj=3 saved=@s1' % sc, 'isapkey.load scheme=%s obj=4 saved=@s2' % sc,
                    'isapkey.enc scheme=%s obj=1 n=%s ad=%s in=%s save=c1' % (sc, n, ad, m), 'isapkey.enc scheme=%s obj=4 n=%s ad=%s in=%s save=c4' % (sc, n, ad, m),
                    'isapkey.dec scheme=%s obj=3 n=%s ad=%s in=@c1' % (sc, n, ad),      # loaded = original: accepted
                    'isapkey.dec scheme=%s obj=4 n=%s ad=%s in=@c1' % (sc, n, ad),      # other key, loaded: rejected
                    'isapkey.dec scheme=%s obj=3 n=%s ad=%s in=@c4' % (sc, n, ad),      # and the reverse
                    'isapkey.dec scheme=%s obj=2 n=%s ad=%s in=@c4' % (sc, n, ad),      # loaded-made packet under the original of that key
                    'isapkey.dec scheme=%s obj=1 n=%s ad=%s in=@c4' % (sc, n, ad)] +
                   ['isapkey.free scheme=%s obj=%d' % (sc, o) for o in (1, 2, 3, 4)], cost=8 * w)
            c.distinct([(sc, 'loaded', rep)])

def run(c):
    c.mc_bg('MC_Forge')
    c.mc_bg('MC_Forge', 'MC_ForgeNeg', must_fail=True)     # a tag comparison over 15 positions must be refuted
    c.mc_bg('MC_Aead', 'MC_Aead' if c.tier == 'thorough' else 'MC_AeadQ')
    p = gen(c)
    sessions(c, p, 200 if c.tier == 'thorough' else 25)
    loaded_keys(c, p)
    # C++ objects: a forged packet is refused and the genuine packet for the same nonce is then still accepted (from C14's plan)
    import c14
    class Sub:
        def __init__(s, c): s.rng = c.rng; s.tier = 'quick'; s.cov = {}
        def distinct(s, items): pass
    q = c14.gen(Sub(c))
    p.cases += [cs for cs in q.cases if any(l.startswith('cpp.dec') for l in cs[0])]
    c.assumptions += ['a modified (key, nonce, AD, ciphertext||tag) verifies with probability 2^-128: every forged input is required to be rejected',
                      'forged decryptions are judged by TLC from the recorded result (negative, plaintext all zero for one-shot forms, canaries intact) after TLC has recomputed the BASE ciphertext from the specification; decryptions of valid and of arbitrary inputs are recomputed in full',
                      'ISAP is not part of the symbolic forgery model (bit-wise re-keying terms are too deep for TLC); it is covered by trace validation only']
    c.tv(p, 'rel', 'forge', max_cost=20.0)
    if c.tier == 'thorough':
        for fl in ('c32', 'dxor', 'ks3+ds3+ms3', 'ks3+ds2', 'c64+ks2+ds1+ms2'):
            c.tv(p, fl, 'forge', max_cost=20.0)
    else:
        c.tv_sample(p, 'forge', ('c32', 'c64', 'dxor', 'ks3+ds2', 'c64+ks2+ds1+ms2'), k=30, max_cost=12.0, pred=lambda cs: cs[1] < 3)
    c.cov['rule'] = 'per scheme and length shape: flip in every ct/tag byte, tag bits, every AD byte, nonce bits, key bits, every truncation, extensions, x every entry-point family; distinct = (scheme, |AD|, |M|, mutation class)'
