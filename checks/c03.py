"""C03: HASH / HASHA / XOF / XOFA, fixed-length and customised XOF."""
from vlib import *
from gens import *
LEVEL = 'model_checking'
# declared lengths: around 32, and where the 32-bit BIT count crosses each of its bytes (32, 8192, 2^21 bytes), the 2^29 clamp, beyond 2^32
BIG = [0, 1, 31, 32, 33, 64, 8191, 8192, 8193, 65536, (1 << 21) - 1, 1 << 21, (1 << 24) + 3, (1 << 28) - 1, 1 << 28, (1 << 28) + (1 << 27) + 5, (1 << 29) - 1, 1 << 29, (1 << 29) + 1, (1 << 32) + 32, (1 << 64) - 1]

def gen(c):
    rng = c.rng; th = c.tier == 'thorough'
    p = Plan()
    mlens = len_classes(8) + [rng.randrange(30, 300) for _ in range(12 if th else 3)] + ([1024, 4096, 8191] if th else [200])
    for kind in ('hash', 'hasha', 'xof', 'xofa'):
        for ml in mlens:
            m = pattern(rng, ml)
            p.case(['os.hash kind=%s in=%s null_if_empty=%d align=%d oalign=%d' % (kind, hx(m), rng.randrange(2), rng.randrange(8), rng.randrange(8))],
                   cost=0.2 + ml / 120.0, tag='%s %d' % (kind, ml))
            c.distinct([(kind, ml % 8, min(ml // 8, 3))])
    outs = [0, 1, 7, 8, 9, 31, 32, 33, 64, 100] + ([1000, 4096] if th else [])
    for kind in ('xof', 'xofa'):
        # plain XOF with every output length class
        for n in outs:
            ml = rng.choice(len_classes(8)); m = pattern(rng, ml)
            p.case(['sp.init kind=%s obj=1 junk=%d' % (kind, rng.randrange(256)), 'sp.absorb kind=%s obj=1 in=%s' % (kind, hx(m)),
                    'sp.squeeze kind=%s obj=1 n=%d' % (kind, n), 'sp.free kind=%s obj=1' % kind], cost=0.3 + (ml + n) / 100.0)
            c.distinct([(kind, 'out', n)])
        # declared lengths incl. the 2^29 clamp and the 32-byte special case
        for L in BIG:
            ml = rng.choice([0, 3, 8, 17]); m = pattern(rng, ml)
            re = rng.randrange(2)
            lines = ['sp.init kind=%s obj=1 variant=fixed outlen=%d junk=%d' % (kind, L, rng.randrange(256))]
            if re:
                lines += ['sp.absorb kind=%s obj=1 in=%s' % (kind, hx(pattern(rng, 5))), 'sp.init kind=%s obj=1 re=1 variant=fixed outlen=%d' % (kind, L)]
            lines += ['sp.absorb kind=%s obj=1 in=%s' % (kind, hx(m)), 'sp.squeeze kind=%s obj=1 n=%d' % (kind, rng.choice([32, 40, 64])), 'sp.free kind=%s obj=1' % kind]
            p.case(lines, cost=0.6); c.distinct([(kind, 'fixed', L)])
        # customised XOF: names of 0..100 characters (incl. NULL, exactly 32, 33), custom strings of each class
        names = [None, 0, 1, 4, 31, 32, 33, 40, 64, 100]
        customs = [0, 1, 7, 8, 9, 16, 21] + ([64, 100] if th else [])
        combos = [(nm, cu) for nm in names for cu in customs]
        if not th: combos = [(nm, cu) for (nm, cu) in combos if cu in (0, 8, 9) or nm in (32, 33)] + rng.sample(combos, 8)
        for nm, cu in combos:
            name = 'null' if nm is None else (hx(bytes(rng.randrange(33, 127) for _ in range(nm))) if nm else '-')
            L = rng.choice([0, 16, 32, 33, 1 << 29])
            ml = rng.choice([0, 5, 8, 13]); m = pattern(rng, ml)
            lines = ['sp.init kind=%s obj=1 variant=custom name=%s custom=%s outlen=%d null_if_empty=%d' % (kind, name, hx(pattern(rng, cu)), L, rng.randrange(2)),
                     'sp.absorb kind=%s obj=1 in=%s' % (kind, hx(m)), 'sp.squeeze kind=%s obj=1 n=%d' % (kind, rng.choice([16, 32, 41])), 'sp.free kind=%s obj=1' % kind]
            p.case(lines, cost=0.8 + (nm or 0) / 50.0); c.distinct([(kind, 'custom', nm, cu)])
    return p

def reused(c, p):
    """the digest of a message computed on an object that was used before: re-initialised after 0, 3, 8, 16, 24
    absorbed bytes (with and without a finalisation in between), and on a copy"""
    from c07 import init_line, sq_line
    rng = c.rng
    for kind in ('hash', 'hasha', 'xof', 'xofa'):
        for k in (0, 3, 8, 16, 24):
            for fin in (0, 1):
                m = pattern(rng, rng.choice([0, 5, 8, 21]))
                lines = [init_line(rng, kind), 'sp.absorb kind=%s obj=1 in=%s' % (kind, hx(pattern(rng, k, 'rand')))]
                if fin: lines.append(sq_line(rng, kind, 32))
                lines += [init_line(rng, kind, 1, re=1), 'sp.absorb kind=%s obj=1 in=%s' % (kind, hx(m)), sq_line(rng, kind, 32), 'sp.free kind=%s obj=1' % kind]
                p.case(lines, cost=0.5); c.distinct([(kind, 'reused', k, fin)])
        # a copy taken in the absorbing phase and one taken after squeezing has begun (any length, also 0) continue like the original
        for sq in (None, 0, 3, 8, 16):
            m = pattern(rng, rng.choice([0, 5, 8, 21]), 'rand')
            lines = [init_line(rng, kind), 'sp.absorb kind=%s obj=1 in=%s' % (kind, hx(m))]
            if sq is not None and kind not in ('hash', 'hasha'): lines.append(sq_line(rng, kind, sq))
            lines += ['sp.copy kind=%s obj=2 src=1 junk=%d' % (kind, rng.randrange(256))]
            if kind in ('hash', 'hasha'): lines += [sq_line(rng, kind, 32, 2), sq_line(rng, kind, 32, 1)]
            else: lines += [sq_line(rng, kind, 11, 2), sq_line(rng, kind, 11, 1), sq_line(rng, kind, 24, 2)]
            lines += ['sp.free kind=%s obj=1' % kind, 'sp.free kind=%s obj=2' % kind]
            p.case(lines, cost=0.5); c.distinct([(kind, 'copy', sq)])

def run(c):
    c.mc_bg('MC_Sponge', disabled=('DoCopy', 'DoSqueeze2', 'ReAbsorb'))
    c.assumptions += ['message/name/customisation VALUES sampled; length classes (mod rate, block count), declared lengths around 32 and 2^29, name lengths around 32 enumerated; absorb calls of 2^32 bytes and more are judged by the partition law only (one call = 1 GiB pieces), not by value',
                      'expected digests computed by TLC from spec/AsconModes.tla (Xof, Xofa, Hash, Hasha, XofFixed, CXof), anchored on reference KATs']
    p = gen(c)
    reused(c, p)
    c.tv(p, 'rel', 'hash', max_cost=20.0)
    # one absorb call of 2^32 + r bytes that follows a partial block, against the same bytes in 1 GiB pieces
    pb = Plan(); rng = c.rng
    for kind, pre, lo in (('xof', 3, 2), ('xofa', 5, 0), ('prf', 7, 9)) + ((('xofa', 1, 6), ('xof', 7, 0), ('xofa', 0, 3)) if c.tier == 'thorough' else ()):
        pb.case(['sp.big kind=%s pre=%s hi=1 lo=%d' % (kind, hx(pattern(rng, pre)), lo)], cost=30.0); c.distinct([(kind, 'big', pre, lo)])
    c.tv(pb, 'rel', 'hashbig', max_cost=20.0)
    # the C++ classes hash, hasha, xof, xofa and the fixed-length templates compute the same functions
    import c17
    class Sub:
        def __init__(s, c): s.rng = c.rng; s.tier = 'quick'; s.cov = {}
        def distinct(s, items): pass
    drv, cmd, out = build_extra('cxx')
    if drv: c.tv(c17.cxx_plan(Sub(c)), 'rel', 'cxx', drv=drv, max_cost=20.0)
    for fl in (('c64', 'c32', 'dxor') if c.tier == 'thorough' else ('c32', 'dxor')):
        c.tv(p, fl, 'hash', max_cost=20.0)      # per-backend pre-computed initial states
    c.cov['rule'] = 'case = (function, |M| class) / (output length) / (declared length) / (name length, custom length); distinct = those tuples'
