"""C09: results are identical for every build configuration of the library."""
from vlib import *
from gens import *
import c01, c02, c03, c04, c05, c06, c07, c14, c15
LEVEL = 'model_checking'

BACKENDS = ['c64', 'c32', 'dxor', 'generic']
SHARES_Q = ['ks2+ds1', 'ks2+ds2', 'ks3+ds1', 'ks3+ds2', 'ks3+ds3', 'ks4+ds1', 'ks4+ds3', 'ks4+ds4',
            'ks3+ds3+ms3', 'ks2+ds2+ms2', 'ks4+ds2+ms3', 'c32+ks3+ds3+ms3', 'c64+ks2+ds1+ms2']
CHECKER = ['chk+realmask', 'chk+ds1+realmask', 'chk+ks3+ds3+realmask', 'chk+ks2+ds2+ms2+realmask', 'chk+ks4+ds4+realmask', 'realmask']

# the masked AEAD converts key shares to data shares through per-back-end word helpers that differ for every
# (key shares, data shares) pair: all pairs on the two portable back ends with their own helpers, masked cases only
SHARES_LIGHT = ['%s+ks%d+ds%d' % (b, ks, ds) for b in ('c64', 'c32') for ks in (2, 3, 4) for ds in (1, 2, 3, 4) if ds <= ks]

def all_configs():
    out = []
    for b in ['', 'c64', 'c32', 'dxor', 'generic']:
        for ms in (2, 3, 4):
            for ks in (2, 3, 4):
                for ds in (1, 2, 3, 4):
                    if ds > ks: continue            # documented: data shares <= key shares
                    toks = ([b] if b else []) + ['ks%d' % ks, 'ds%d' % ds, 'ms%d' % ms]
                    out.append('+'.join(toks))
    return out

class Sub:
    """a quick-tier view of the check object for the imported generators"""
    def __init__(self, c): self.c = c; self.rng = c.rng; self.tier = 'quick'; self.cov = {}
    def distinct(self, items): pass

def workload(c):
    sub = Sub(c); rng = c.rng
    p = Plan()
    def take(plan, k):
        cs = plan.cases if len(plan.cases) <= k else rng.sample(plan.cases, k)
        p.cases.extend(cs)
    take(c01.gen(sub), 40); take(c02.gen(sub), 25); take(c03.gen(sub), 60); take(c04.gen(sub), 50); take(c05.gen(sub), 45); take(c06.gen(sub), 40)
    q = Plan(); c07.transitions(sub, q); c07.walks(sub, q, 40); c07.sessions(sub, q, 25); take(q, 160)
    take(c14.gen(sub), 30); take(c15.gen(sub), 25)
    # permutation interface (one state at a time, so that the acquire/release checker build can run it)
    for i in range(30):
        o, s = rng.randrange(40), rng.randrange(0, 12)
        s = min(s, 40 - o)
        p.case(['perm.init obj=1', 'perm.set obj=1 data=%s' % hx(pattern(rng, 40, 'rand')), 'perm.add obj=1 off=%d data=%s' % (o, hx(pattern(rng, s))),
                'perm.permute obj=1 r=%d' % rng.randrange(12), 'perm.extract_ovw obj=1 off=%d data=%s inplace=1' % (o, hx(pattern(rng, s))),
                'perm.extract obj=1 off=0 size=40', 'perm.copy obj=2 src=1 free_src=1', 'perm.permute obj=2 r=6', 'perm.free obj=2'], cost=0.5)
    for i, cs in enumerate(p.cases): c.distinct([('case', i)])
    return p

def run(c):
    th = c.tier == 'thorough'
    p = workload(c)
    c.assumptions += ['the common workload is assembled from the plans of C01..C07, C14, C15 (every public C function family, incremental objects, C++ cipher classes, PRNG) and is validated against the specification on the default build; a configuration whose trace text is identical inherits that verdict, any difference is judged by TLC',
                      'a configuration that fails to build, or whose run aborts (acquire/release checker) or truncates, violates the property',
                      'raw masked data, struct sizes and randomness consumption are not part of the comparison (only functional outputs and documented public fields)']
    cfgs = ['rel'] + BACKENDS + (all_configs() if th else SHARES_Q) + CHECKER
    light = [] if th else [x for x in SHARES_LIGHT if x not in cfgs]
    pm = Plan(); pm.cases = [cs for cs in p.cases if any('masked' in l for l in cs[0])]
    cfgs = cfgs + light
    def try_build(fl):
        try: build(fl, allow_fail=True)
        except Exception: pass
    with cf.ThreadPoolExecutor(max_workers=8) as ex: list(ex.map(try_build, cfgs))
    seen = []
    for fl in cfgs:
        if fl in seen: continue
        seen.append(fl)
        drv = build(fl, allow_fail=True)
        if drv is None:
            rd = c.replay_dir('build_' + fl.replace('+', '_'))
            rc, out = sh([ROOT + '/tools/build.sh', fl], timeout=900)
            with open(rd + '/build.log', 'w') as f: f.write(out)
            with open(rd + '/replay.sh', 'w') as f: f.write('#!/bin/sh\n%s/tools/build.sh %s\n' % (ROOT, fl))
            c.violation('build:' + fl, 'configuration %s does not build: %s' % (fl, out[-300:]), rd)
            continue
        c.tv(pm if fl in light else p, fl, 'cfg', max_cost=30.0)
    c.cov['configurations'] = seen
    c.cov['configurations_masked_cases_only'] = light
    c.cov['masked_cases'] = len(pm.cases)
    c.cov['exhaustive'] = th
    c.cov['rule'] = 'one common workload (%d cases) x %d build configurations; distinct = workload cases' % (len(p.cases), len(seen))
