"""C14: session nonces advance by exactly one per packet, big-endian, full carry."""
from vlib import *
from gens import *
LEVEL = 'model_checking'
CLASSES = [('aead128', 16), ('aead128a', 16), ('aead80pq', 20), ('siv128', 16), ('siv128a', 16), ('siv80pq', 20),
           ('isap128', 16), ('isap128a', 16), ('isap80pq', 20), ('aead128_masked', 16), ('aead128a_masked', 16), ('aead80pq_masked', 20)]

def carry_nonce(rng, k):
    """a nonce whose increment carries through exactly k bytes (k = 16: all FF, wraps to zero)"""
    if k >= 16: return bytes([255] * 16)
    head = bytes(rng.randrange(256) for _ in range(16 - k - 1)) + bytes([rng.randrange(255)])
    return head + bytes([255] * k)

def gen(c):
    rng = c.rng; th = c.tier == 'thorough'
    p = Plan()
    # the increment helper itself: every carry-chain length, 1..3 steps
    lines = []
    for k in range(17):
        for t in (1, 2, 3):
            lines.append('nonce.inc n=%s times=%d' % (hx(carry_nonce(rng, k)), t))
    for _ in range(20): lines.append('nonce.inc n=%s times=1' % hx(pattern(rng, 16)))
    p.case(lines, cost=2.0); c.distinct([('inc', k) for k in range(17)])
    # set_counter
    vals = [0, 1, 255, 256, 0xffff, 0x10000, 0xffffffff, 0x100000000, 0x0123456789abcdef, 0xffffffffffffffff, 0x8000000000000000] + [rng.getrandbits(64) for _ in range(6)]
    p.case(['nonce.set_counter ctr=%d' % v for v in vals], cost=1.0); c.distinct([('ctr', v) for v in vals])
    # incremental C sessions: 3 packets from every carry-chain length
    for sc, klen, rate in [('aead128', 16, 8), ('aead128a', 16, 16), ('aead80pq', 20, 8)]:
        for k in (range(17) if (th or sc == 'aead128') else rng.sample(range(17), 6) + [16, 15]):
            n = carry_nonce(rng, k); kk = pattern(rng, klen)
            lines = ['inc.init scheme=%s obj=1 k=%s n=%s' % (sc, hx(kk), hx(n))]
            for pkt in range(3):
                ad = pattern(rng, rng.choice([0, 3, rate])); m = pattern(rng, rng.choice([0, 5, rate, rate + 3]))
                lines += ['inc.start scheme=%s obj=1 ad=%s' % (sc, hx(ad)), 'inc.enc scheme=%s obj=1 in=%s' % (sc, hx(m)), 'inc.encfin scheme=%s obj=1' % sc]
            # re-init keeping the current nonce (documented: pass the state's own nonce field)
            lines += ['inc.init scheme=%s obj=1 re=1 k=%s n=- nself=1' % (sc, hx(kk)), 'inc.start scheme=%s obj=1 ad=-' % sc, 'inc.encfin scheme=%s obj=1' % sc,
                      'inc.init scheme=%s obj=1 re=1 k=- n=- knull=1 nnull=1' % sc, 'inc.start scheme=%s obj=1 ad=-' % sc, 'inc.encfin scheme=%s obj=1' % sc,
                      'inc.free scheme=%s obj=1' % sc]
            p.case(lines, cost=2.0); c.distinct([(sc, 'session', k)])
        # receiving sessions: a genuine packet, a rejected one (wrong tag), an abandoned one, then further packets - starting a
        # packet advances the stored nonce by one whatever becomes of the packet
        for k in (16, 8, 0, 3):
            n = carry_nonce(rng, k); kk = pattern(rng, klen)
            lines = ['inc.init scheme=%s obj=1 k=%s n=%s' % (sc, hx(kk), hx(n)), 'inc.init scheme=%s obj=2 k=%s n=%s' % (sc, hx(kk), hx(n))]
            for pkt, fate in enumerate(('ok', 'badtag', 'ok', 'abandon', 'ok')):
                ad = pattern(rng, rng.choice([0, 3])); m = pattern(rng, rng.choice([1, 5, rate + 3]))
                lines += ['inc.start scheme=%s obj=1 ad=%s' % (sc, hx(ad)), 'inc.enc scheme=%s obj=1 in=%s save=ct%d' % (sc, hx(m), pkt), 'inc.encfin scheme=%s obj=1 save=tag%d' % (sc, pkt),
                          'inc.start scheme=%s obj=2 ad=%s' % (sc, hx(ad)), 'inc.dec scheme=%s obj=2 in=@ct%d' % (sc, pkt)]
                if fate == 'ok': lines.append('inc.decfin scheme=%s obj=2 tag=@tag%d' % (sc, pkt))
                elif fate == 'badtag': lines.append('inc.decfin scheme=%s obj=2 tag=%s' % (sc, hx(pattern(rng, 16, 'rand'))))
            lines += ['inc.free scheme=%s obj=1' % sc, 'inc.free scheme=%s obj=2' % sc]
            p.case(lines, cost=3.0); c.distinct([(sc, 'receive', k)])
    # C++ objects: packet i under N+i; successful / failed decrypt; set_nonce lengths 0..20; set_counter
    for cls, klen in CLASSES:
        slow = cls in ('isap128', 'isap80pq')
        ks = list(range(17)) if th and not slow else ([0, 1, 8, 15, 16] + rng.sample(range(2, 15), 2 if slow else 4))
        if slow and not th: ks = [1, 16, 12]
        for k in ks:
            n = carry_nonce(rng, k); kk = pattern(rng, klen)
            lines = ['cpp.new cls=%s obj=1 how=key key=%s tape=rand' % (cls, hx(kk)), 'cpp.new cls=%s obj=2 how=key key=%s' % (cls, hx(kk)),
                     'cpp.set_nonce obj=1 n=%s' % hx(n), 'cpp.set_nonce obj=2 n=%s' % hx(n)]
            cost = 1.0
            for pkt in range(3 if not slow else 2):
                ad = pattern(rng, rng.choice([0, 2, 9])); m = pattern(rng, rng.choice([1, 5, 17]))
                form = rng.choice(['ptr', 'ba'])
                lines.append('cpp.enc obj=1 m=%s ad=%s form=%s save=ct noad=%d' % (hx(m), hx(ad), form, rng.randrange(2)))
                # receiver: a forged packet first (must not advance), a runt, then the genuine one (must advance)
                if rng.random() < 0.7: lines.append('cpp.dec obj=2 ct=@ct ad=%s flip=%d mask=%d form=%s' % (hx(ad), rng.randrange(len(m) + 16), 1 << rng.randrange(8), rng.choice(['ptr', 'ba'])))
                if rng.random() < 0.3: lines.append('cpp.dec obj=2 ct=@ct:0:%d ad=%s form=%s' % (rng.randrange(16), hx(ad), rng.choice(['ptr', 'ba'])))
                lines.append('cpp.dec obj=2 ct=@ct ad=%s form=%s' % (hx(ad), rng.choice(['ptr', 'ba'])))
                cost += 3.5 if slow else (1.5 if cls.startswith('isap') else 0.6)
            # the receiver answers: its encryption must use N+packets
            lines.append('cpp.enc obj=2 m=%s ad=- form=ptr' % hx(pattern(rng, 4)))
            lines += ['cpp.del obj=1', 'cpp.del obj=2']
            p.case(lines, cost=cost); c.distinct([(cls, 'pkts', k)])
        # set_nonce with every length 0..20, set_counter; checked through the next ciphertext
        lens = range(21) if (th or not slow) and not cls.startswith('isap') or th else [0, 1, 8, 15, 16, 17, 20]
        lines = ['cpp.new cls=%s obj=1 how=default' % cls]
        # in random order, and length 0 once more at the end: the stored nonce is then certainly not zero already
        order = list(lens); rng.shuffle(order)
        for L in order + [0, 1]:
            lines += ['cpp.set_nonce obj=1 n=%s null_if_empty=%d' % (hx(pattern(rng, L, 'rand')), rng.randrange(2)), 'cpp.enc obj=1 m=%s ad=- form=ptr' % hx(pattern(rng, 3))]
        for v in [0, 1, 0xffffffffffffffff, rng.getrandbits(64)]:
            lines += ['cpp.set_counter obj=1 ctr=%d' % v, 'cpp.enc obj=1 m=- ad=- form=ba', 'cpp.enc obj=1 m=- ad=- form=ptr']
        lines.append('cpp.del obj=1')
        p.case(lines, cost=(len(lines) / 2) * (3.0 if slow else 0.4)); c.distinct([(cls, 'set_nonce', L) for L in lens])
    return p

def run(c):
    c.mc_bg('MC_Nonce')
    c.mc_bg('MC_Nonce', 'MC_Nonce3')
    c.mc_bg('MC_Aead', 'MC_Aead' if c.tier == 'thorough' else 'MC_AeadQ')
    # unbounded, by SMT: for base 256 x 16 digits the closed form of the increment (NonceClosed.tla, which
    # MC_Nonce checks equal to the recursive operator of the trace spec) is +1 modulo 2^128 for every nonce,
    # and "stored nonce = N + successful packets (mod 2^128)" is an inductive invariant of the session
    c.apalache_bg('NonceInd', 'Init', 'StepLemma', 0)
    c.apalache_bg('NonceInd', 'Init', 'IndInv', 0)
    c.apalache_bg('NonceInd', 'IndInv', 'IndInv', 1)
    if c.tier == 'thorough':
        c.apalache_bg('NonceInd', 'Init', 'BadLemma', 0, must_fail=True)     # saturating instead of wrapping: must be refuted
    p = gen(c)
    c.assumptions += ['Apalache 0.58 discharges NonceInd.tla: base case and inductive step of Val(nonce) + wraps * 2^128 = N + good over all 2^128 nonces (no bound on the number of packets); the link to the code is the trace validation below plus MC_Nonce\'s ClosedIsRecursive on the scaled domains',
                      'the carry arithmetic is exhausted on scaled nonces (base 2 x 16 digits, base 3 x 9 digits) with the operator the trace spec uses at base 256; the real code is driven through every carry-chain length 0..16',
                      'the C++ nonce is private: it is tracked by the specification and judged through the ciphertexts (packet i must equal the C function under N+i)']
    c.tv(p, 'rel', 'nonce', max_cost=25.0)
    if c.tier == 'thorough':
        c.tv(p, 'c32', 'nonce', max_cost=25.0)
    c.cov['rule'] = 'every carry-chain length 0..16 x {helper, 3 incremental C sessions, 12 C++ classes}; set_nonce lengths 0..20; distinct = those tuples'
