"""C18: assembly back ends match their generators, the specification and the ABI."""
from vlib import *
from gens import *
LEVEL = 'exploration'
GEN = [  # (directory, build target, command line, checked-in file)
    ('genarm', 'bin/ascon_armv6', [], 'src/core/ascon-asm-armv6.S'), ('genarm', 'bin/ascon_armv6m', [], 'src/core/ascon-asm-armv6m.S'),
    ('genarm', 'bin/ascon_armv7m', [], 'src/core/ascon-asm-armv7m.S'), ('genarm', 'bin/ascon_armv8a_64', [], 'src/core/ascon-asm-armv8a-64.S'),
    ('genavr', 'genavr', ['ASCON'], 'src/core/ascon-asm-avr5.S'), ('genavr', 'genavr', ['ASCON-x2'], 'src/masking/ascon-x2-asm-avr5.S'),
    ('genavr', 'genavr', ['ASCON-x3'], 'src/masking/ascon-x3-asm-avr5.S'),
    ('genm68k', 'bin/ascon_m68k', [], 'src/core/ascon-asm-m68k.S'),
    ('genriscv', 'bin/ascon_riscv32e', [], 'src/core/ascon-asm-riscv32e.S'), ('genriscv', 'bin/ascon_riscv32i', [], 'src/core/ascon-asm-riscv32i.S'),
    ('genriscv', 'bin/ascon_riscv64', [], 'src/core/ascon-asm-riscv64i.S'),
    ('genx86', 'bin/ascon_i386', [], 'src/core/ascon-asm-i386.S'), ('genx86', 'bin/ascon_x86_64', [], 'src/core/ascon-asm-x86-64.S'),
    ('genx86', 'bin/ascon_x86_64_masked', ['2'], 'src/masking/ascon-x2-asm-x86-64.S'), ('genx86', 'bin/ascon_x86_64_masked', ['3'], 'src/masking/ascon-x3-asm-x86-64.S'),
    ('genx86', 'bin/ascon_x86_64_masked', ['4'], 'src/masking/ascon-x4-asm-x86-64.S'), ('genx86', 'bin/ascon_x86_64_masked_word', [], 'src/masking/ascon-word-asm-x86-64.S'),
    ('genxtensa', 'bin/ascon_xtensa_64', [], 'src/core/ascon-asm-xtensa.S'),
]

def states(c, n):
    rng = c.rng
    out = [bytes(40), bytes([255] * 40), bytes(range(40))]
    for bit in rng.sample(range(320), n // 2):
        b = bytearray(40); b[bit // 8] = 0x80 >> (bit % 8); out.append(bytes(b))
    out += [bytes(rng.randrange(256) for _ in range(40)) for _ in range(n - len(out))]
    return out

def gen_fidelity(c, ev):
    g = BUILD + '/gen'
    shutil.rmtree(g, ignore_errors=True); os.makedirs(g)
    sh(['cp', '-r', REPO + '/tools', g + '/tools'])
    sh('rm -rf %s/tools/*/bin %s/tools/genavr/*.o %s/tools/genavr/genavr' % (g, g, g))
    rc, out = sh(['make', '-C', g + '/tools', 'all', '-j8'], timeout=600)
    for d, tgt, args, f in GEN:
        exe = '%s/tools/%s/%s' % (g, d, tgt)
        e = {'e': 'gen.diff', 'file': f, 'generator': d + '/' + tgt + ' ' + ' '.join(args)}
        if not os.path.exists(exe):
            e.update({'generated': 0, 'equal': 0})
        else:
            p = subprocess.run([exe] + args, stdout=subprocess.PIPE, stderr=subprocess.PIPE, timeout=120)
            same = p.returncode == 0 and p.stdout == open(REPO + '/' + f, 'rb').read()
            e.update({'generated': 1 if p.returncode == 0 else 0, 'equal': 1 if same else 0})
            if not same and p.returncode == 0:
                open(BUILD + '/gen/' + os.path.basename(f) + '.generated', 'wb').write(p.stdout)
        ev.append(e); c.distinct([('gen', f)])

def i386_events(c, ev, sts):
    out_dir = BUILD + '/i386'; os.makedirs(out_dir, exist_ok=True)
    build('rel')
    cmd = 'gcc -m32 -O1 -nostdlib -static -ffreestanding -fno-stack-protector -fno-pic -no-pie -Wl,-z,noexecstack -I%s/src/core -I%s/src -I%s/lib/rel -DHAVE_CONFIG_H %s/harness/i386/i386_drv.c %s/harness/i386/tramp_i386.S %s/src/core/ascon-asm-i386.S -o %s/i386_drv' % (REPO, REPO, BUILD, ROOT, ROOT, REPO, out_dir)
    rc, out = sh(cmd, timeout=300)
    if rc != 0:
        rd = c.replay_dir('i386_build'); open(rd + '/build.log', 'w').write(cmd + '\n' + out); open(rd + '/replay.sh', 'w').write('#!/bin/sh\n' + cmd + '\n')
        c.violation('asm:i386:build', 'ascon-asm-i386.S does not assemble/link: ' + out[-300:], rd); return
    recs = [(r, s) for s in sts for r in range(12)] + [(12, sts[0]), (13, sts[1])]
    p = subprocess.run([out_dir + '/i386_drv'], input=b''.join(bytes([r]) + s for r, s in recs), stdout=subprocess.PIPE, timeout=300)
    o = p.stdout
    for i, (r, s) in enumerate(recs):
        rec = o[41 * i: 41 * i + 41]
        if len(rec) < 41:
            ev.append({'e': 'Fault', 'kind': 'i386 driver died', 'line': i}); break
        if r >= 12: continue      # no rounds: not part of the specified domain 0..11
        f = rec[40]
        ev.append({'e': 'asm.permute', 'arch': 'i386', 'fn': 'permute', 'r': r, 'in': list(s), 'out': list(rec[:40]), 'regs': f & 1, 'sp': (f >> 1) & 1, 'guard': (f >> 2) & 1})
        c.distinct([('i386', r, s)])

def avr_events(c, ev, sts):
    out_dir = BUILD + '/avr'; os.makedirs(out_dir, exist_ok=True)
    g = REPO + '/tools/genavr'
    cmd = 'g++ -O1 -std=c++11 -I%s -I%s/tools/common %s/harness/avr/avr_drv.cpp %s/algorithm_ascon.cpp %s/algorithm_ascon_x2.cpp %s/algorithm_ascon_x3.cpp %s/code.cpp %s/code_out.cpp %s/interpret.cpp -o %s/avr_drv' % (g, REPO, ROOT, g, g, g, g, g, g, out_dir)
    rc, out = sh(cmd, timeout=300)
    if rc != 0:
        raise Infra('AVR generator sources do not build: ' + out[-500:])
    recs = [(r, s) for s in sts for r in range(12)]
    p = subprocess.run([out_dir + '/avr_drv'], input=''.join('%d %s\n' % (r, s.hex()) for r, s in recs).encode(), stdout=subprocess.PIPE, timeout=600)
    lines = p.stdout.decode().split('\n')
    for i, (r, s) in enumerate(recs):
        if i >= len(lines) or len(lines[i]) != 80:
            ev.append({'e': 'Fault', 'kind': 'avr interpreter died', 'line': i}); break
        ev.append({'e': 'asm.permute', 'arch': 'avr5', 'fn': 'permute', 'r': r, 'in': list(s), 'out': list(bytes.fromhex(lines[i])), 'regs': 1, 'sp': 1, 'guard': 1})
        c.distinct([('avr5', r, s)])
    p = subprocess.run([out_dir + '/avr_drv', '--selftest'], stdout=subprocess.PIPE, timeout=300)
    for l in p.stdout.decode().split('\n'):
        if l.strip(): ev.append({'e': 'asm.selftest', 'arch': 'avr5', 'what': l.split()[0], 'ok': int(l.split()[1])})

def stack_events(c, ev):
    build_full('rel')
    B = BUILD + '/full/rel'
    for f in (B + '/src/libascon.so', B + '/apps/asconcrypt/asconcrypt', B + '/apps/asconsum/asconsum'):
        rc, out = sh(['readelf', '-lW', f])
        m = re.search(r'GNU_STACK\s+\S+\s+\S+\s+\S+\s+\S+\s+\S+\s+(\S+)', out)
        flags = m.group(1) if m else 'missing'
        ev.append({'e': 'elf.stack', 'object': os.path.relpath(f, B), 'flags': flags, 'exec': 1 if ('E' in flags or flags == 'missing') else 0}); c.distinct([('stack', f)])
    # every object assembled from a .S file must carry a .note.GNU-stack section (otherwise the
    # linker makes the stack executable for whoever links it)
    rc, out = sh('find %s/src/CMakeFiles/ascon_static.dir -name "*.S.o"' % B)
    for o in sorted(out.split()):
        rc, sec = sh(['readelf', '-SW', o])
        has = '.note.GNU-stack' in sec
        x = bool(re.search(r'\.note\.GNU-stack\s+\S+\s+\S+\s+\S+\s+\S+\s+\S+\s+\S*X', sec))
        ev.append({'e': 'elf.stack', 'object': os.path.relpath(o, B), 'flags': 'note' if has else 'no-note', 'exec': 0 if (has and not x) else 1}); c.distinct([('stack', o)])

def cross_stack_events(c, ev):
    """the same question for a build configured the way toolchain files / Yocto / buildroot do (CMAKE_SYSTEM_NAME set, so
    CMAKE_CROSSCOMPILING is true): the shared library must not ask for an executable stack there either"""
    B = BUILD + '/cross'
    os.makedirs(B, exist_ok=True)
    if not os.path.exists(B + '/build.ninja'):
        rc, out = sh(['cmake', '-G', 'Ninja', '-S', REPO, '-B', B, '-DCMAKE_SYSTEM_NAME=Linux', '-DCMAKE_SYSTEM_PROCESSOR=x86_64', '-DMINIMAL=ON'], timeout=300)
        if rc != 0: raise Infra('cross-style configuration failed: ' + out[-300:])
    rc, out = sh(['ninja', '-C', B, 'ascon_static'], timeout=900)
    if rc != 0:
        rd = c.replay_dir('cross_build'); open(rd + '/build.log', 'w').write(out)
        open(rd + '/replay.sh', 'w').write('#!/bin/sh\ncmake -G Ninja -S /repo -B /tmp/cross -DCMAKE_SYSTEM_NAME=Linux -DCMAKE_SYSTEM_PROCESSOR=x86_64 -DMINIMAL=ON && ninja -C /tmp/cross ascon_static\n')
        c.violation('build:cross', 'the library does not build when CMAKE_SYSTEM_NAME is set: ' + out[-300:], rd); return
    # every object assembled from a .S file carries a non-executable .note.GNU-stack (otherwise whoever links it gets an executable stack)
    rc, out = sh('find %s/src/CMakeFiles/ascon_static.dir -name "*.S.o"' % B)
    for o in sorted(out.split()):
        rc, sec = sh(['readelf', '-SW', o])
        has = '.note.GNU-stack' in sec
        x = bool(re.search(r'\.note\.GNU-stack\s+\S+\s+\S+\s+\S+\s+\S+\s+\S+\s+\S*X', sec))
        ev.append({'e': 'elf.stack', 'object': 'cross/' + os.path.relpath(o, B), 'flags': 'note' if has else 'no-note', 'exec': 0 if (has and not x) else 1}); c.distinct([('stack', 'cross', o)])

def run(c):
    th = c.tier == 'thorough'
    c.assumptions += ['part 1 (all 18 files): byte-for-byte equality with what the generator programs emit; part 2 semantics: x86-64 (plain and masked x2/x3/x4) and i386 run natively, AVR5 runs on the generator\'s own instruction interpreter, the remaining nine files (ARMv6, ARMv6-M, ARMv7-M, ARMv8-A, m68k, RISC-V x3, Xtensa) only where tools/asmint.py has an interpreter for them (listed in coverage.interpreted); part 3 ABI: register sentinels and stack pointer through assembly trampolines on x86-64 and i386; part 4: GNU_STACK of the built shared library, tools and every object assembled from a .S',
                      'no emulator or cross toolchain for the non-host architectures is installed; state VALUES are sampled (patterns, walking bits, random), starting rounds 0..11 exhaustive']
    ev = [{'e': 'Reset'}]
    sts = states(c, 60 if th else 14)
    gen_fidelity(c, ev)
    i386_events(c, ev, sts)
    avr_events(c, ev, sts[: (20 if th else 6)])
    stack_events(c, ev)
    cross_stack_events(c, ev)
    try:
        import asmint
        asmint.events(c, ev, sts[: (40 if th else 4)])
    except ImportError:
        c.cov['interpreted'] = []
    # validate the recorded events with the trace specification
    d = '%s/run/C18_events' % BUILD
    shutil.rmtree(d, ignore_errors=True); os.makedirs(d)
    shards = [ev[i:i + 150] for i in range(0, len(ev), 150)]
    def val(i):
        wd = '%s/s%03d' % (d, i); os.makedirs(wd, exist_ok=True)
        open(wd + '/trace.ndjson', 'w').write(''.join(json.dumps(e) + '\n' for e in ([{'e': 'Reset'}] if i else []) + shards[i]))
        return validate_trace(wd + '/trace.ndjson', wd, 'Trace')
    with cf.ThreadPoolExecutor(max_workers=NPROC) as ex: results = list(ex.map(val, range(len(shards))))
    c.cov['evaluations'] += len(ev)
    for r in results:
        if r['status'] == 'infra': raise Infra(r.get('detail'))
        if r['status'] == 'ok': c.cov['traces_validated_against_impl'] += 1; continue
        rd = c.replay_dir(os.path.basename(r['dir']))
        for fn in ('trace.ndjson', 'tlc.out'): shutil.copy(r['dir'] + '/' + fn, rd + '/' + fn)
        open(rd + '/replay.sh', 'w').write('#!/bin/sh\ncd /verif/spec && TRACE=%s/trace.ndjson ../tools/tlc.sh -workers 1 -config Trace.cfg Trace.tla | tail -40\n' % rd)
        e = json.loads(r.get('event') or '{}')
        key = e.get('e', 'event') + ':' + (e.get('file') or e.get('arch', '') + ':' + str(e.get('fn', '')) or e.get('object', ''))
        if e.get('e') == 'elf.stack': key = 'elf.stack:' + e.get('object', '')
        c.violation(key, '%s event: %s' % (r.get('detail'), (r.get('event') or '')[:300]), rd)
    c.cov['samples'] += [e for e in ev if e['e'] in ('gen.diff', 'elf.stack')][:3]
    # x86-64 natively through the register-sentinel trampoline (plain and masked entry points)
    p = Plan()
    for i, s in enumerate(sts[: (30 if th else 8)]):
        lines = []
        for fn in ('permute', 'x2', 'x3', 'x4'):
            for r in range(12): lines.append('asm.abi fn=%s r=%d data=%s' % (fn, r, hx(s)))
        if i == 0: lines.append('asm.abi fn=free r=0 data=%s' % hx(s))
        p.case(lines, cost=3.0); c.distinct([('x86-64', i)])
    c.tv(p, 'rel', 'abi', max_cost=12.0)
    # the x86-64 masked-word / masked-permutation assembly in the share configurations that change
    # its conditional code (MAX_SHARES 3 and 2): values by the specification, canaries around every object
    import c10
    class Sub:
        def __init__(s, c): s.rng = c.rng; s.tier = 'quick'; s.cov = {}
        def distinct(s, items): pass
    for fl, ms in (('ks3+ds3+ms3', 3), ('ks2+ds2+ms2', 2)):
        q = Plan(); c10.toolkit(Sub(c), q, ms, False)
        c.tv(q, fl, 'maskedasm', max_cost=15.0)
    c.cov['rule'] = '18 generator/file pairs; (architecture, starting round, state) executions on x86-64 (4 entry points), i386, AVR5 (+ interpreted architectures); ELF objects; distinct = those tuples'
