"""Shared input generators: byte patterns and structural length classes."""
def pattern(rng, n, kind=None):
    kind = kind or rng.choice(['rand', 'rand', 'rand', 'zero', 'ff', 'count', 'bit'])
    if kind == 'zero': return bytes(n)
    if kind == 'ff': return bytes([255]) * n
    if kind == 'count': return bytes((i + 1) & 255 for i in range(n))
    if kind == 'bit':
        b = bytearray(n)
        if n: b[rng.randrange(n)] = 1 << rng.randrange(8)
        return bytes(b)
    return bytes(rng.randrange(256) for _ in range(n))

def len_classes(rate):
    """structural classes of a length w.r.t. a rate: 0, 1, r-1, r, r+1, 2r-1, 2r, 2r+1, 3r, 3r+5"""
    s = {0, 1, rate - 1, rate, rate + 1, 2 * rate - 1, 2 * rate, 2 * rate + 1, 3 * rate, 3 * rate + 5}
    return sorted(x for x in s if x >= 0)

def chunks(rng, total, rate):
    """a random partition of total into chunk sizes mixing 0, <rate, =rate, >rate"""
    out = []; left = total
    while left > 0:
        c = rng.choice([0, 1, rate - 1, rate, rate + 1, 2 * rate, rng.randrange(1, 3 * rate + 2), left])
        c = min(c, left); out.append(c); left -= c
    if rng.random() < 0.3: out.append(0)
    return out or [0]
