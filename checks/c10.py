"""C10: masked code computes the unmasked function for every randomness and share count."""
from vlib import *
from gens import *
LEVEL = 'model_checking'
TAPES = ['zero', 'ones', 'const', 'alt', 'rand', 'rand', 'list']

def tape(rng):
    t = rng.choice(TAPES)
    data = hx(pattern(rng, 8, 'rand')) if t != 'list' else hx(pattern(rng, 8, 'rand') * 2 + bytes(8))    # a, a, 0: cancelling values
    return 'tape=%s tapedata=%s' % (t, data)

def toolkit(c, p, maxs, th):
    rng = c.rng
    ns = [n for n in (2, 3, 4) if n <= maxs]
    for n in ns:
        for rep in range(6 if th else 2):
            w = lambda: hx(pattern(rng, 8))
            lines = []
            lines += ['mw.op name=zero n=%d obj=1 %s' % (n, tape(rng)), 'mw.op name=load n=%d obj=2 data=%s align=%d %s' % (n, w(), rng.randrange(8), tape(rng))]
            for size in range(8):
                lines.append('mw.op name=load_partial n=%d obj=3 data=%s null_if_empty=%d %s' % (n, hx(pattern(rng, size)), rng.randrange(2), tape(rng)))
                lines.append('mw.op name=store_partial n=%d obj=2 size=%d align=%d' % (n, size, rng.randrange(8)))
                lines.append('mw.op name=replace n=%d obj=3 src=2 size=%d' % (n, size))
                lines.append('mw.op name=pad n=%d obj=3 size=%d' % (n, size))
            lines += ['mw.op name=load_32 n=%d obj=4 data=%s data2=%s %s' % (n, hx(pattern(rng, 4)), hx(pattern(rng, 4)), tape(rng)),
                      'mw.op name=store n=%d obj=4' % n, 'mw.op name=xor n=%d obj=4 src=2' % n, 'mw.op name=xor n=%d obj=4 src=4' % n,
                      'mw.op name=separator n=%d obj=2' % n]
            for t in ('rand', 'rand', 'zero', 'ones', 'const', 'alt', 'list'):
                td = hx(pattern(rng, 8, 'rand')) if t != 'list' else hx(pattern(rng, 8, 'rand') * 2 + bytes(8))
                lines.append('mw.op name=randomize n=%d obj=2 src=2 tape=%s tapedata=%s' % (n, t, td))
                lines.append('mw.op name=randomize n=%d obj=5 src=2 tape=%s tapedata=%s' % (n, t, td))
            for m in ns:
                if m != n: lines.append('mw.op name=from n=%d m=%d obj=6 src=%d dirty=%d %s' % (m, n, 2, rng.randrange(1, 256), tape(rng))); lines.append('mw.op name=store n=%d obj=6' % m)
            # the same conversions in place (dest == src), as the masked AEAD code narrows and widens its state
            for m in ns:
                if m != n: lines += ['mw.op name=load n=%d obj=7 data=%s %s' % (n, hx(pattern(rng, 8, 'rand')), tape(rng)), 'mw.op name=from n=%d m=%d obj=7 src=7 dirty=%d %s' % (m, n, rng.randrange(1, 256), tape(rng)), 'mw.op name=store n=%d obj=7' % m]
            p.case(lines, cost=2.0); c.distinct([('word', maxs, n, rep)])
        # masked permutation for every starting round, state refresh, conversions
        for rep in range(4 if th else 1):
            st = pattern(rng, 40)
            lines = ['ms.op name=load n=%d obj=1 data=%s %s' % (n, hx(st), tape(rng))]
            for r in range(12):
                lines.append('ms.op name=permute n=%d obj=1 r=%d %s' % (n, r, tape(rng)))
                if r % 4 == 0: lines.append('ms.op name=randomize n=%d obj=1 tape=%s tapedata=%s' % (n, rng.choice(['rand', 'zero', 'ones']), hx(pattern(rng, 8, 'rand'))))
            lines.append('ms.op name=to_x1 n=%d obj=1' % n)
            for m in ns:
                lines += ['ms.op name=from n=%d m=%d obj=2 src=1 dirty=%d %s' % (m, n, rng.randrange(1, 256), tape(rng)), 'ms.op name=permute n=%d obj=2 r=%d %s' % (m, rng.randrange(12), tape(rng)), 'ms.op name=to_x1 n=%d obj=2' % m, 'ms.op name=free n=%d obj=2' % m]
            lines.append('ms.op name=free n=%d obj=1' % n)
            for m in ns:        # whole states converted in place
                if m != n: lines += ['ms.op name=load n=%d obj=3 data=%s %s' % (n, hx(pattern(rng, 40, 'rand')), tape(rng)), 'ms.op name=from n=%d m=%d obj=3 src=3 %s' % (m, n, tape(rng)),
                                     'ms.op name=permute n=%d obj=3 r=%d %s' % (m, rng.randrange(12), tape(rng)), 'ms.op name=to_x1 n=%d obj=3' % m, 'ms.op name=free n=%d obj=3' % m]
            p.case(lines, cost=2.0); c.distinct([('state', maxs, n, rep)])
    # masked keys
    for bits, kl in ((128, 16), (160, 20)):
        for rep in range(4 if th else 2):
            lines = ['mk.op name=init bits=%d obj=1 key=%s junk=%d %s' % (bits, hx(pattern(rng, kl)), rng.randrange(256), tape(rng))]
            for t in ('rand', 'zero', 'ones', 'rand', 'const'):
                lines.append('mk.op name=randomize bits=%d obj=1 tape=%s tapedata=%s' % (bits, t, hx(pattern(rng, 8, 'rand'))))
            lines += ['mk.op name=extract bits=%d obj=1 align=%d' % (bits, rng.randrange(8)), 'mk.op name=free bits=%d obj=1' % bits]
            p.case(lines, cost=1.0); c.distinct([('key', maxs, bits, rep)])

def aead(c, p, th):
    rng = c.rng
    for sc, klen, rate in [('aead128', 16, 8), ('aead128a', 16, 16), ('aead80pq', 20, 8)]:
        # message lengths in both 8-byte halves of a 16-byte rate, below / at / above every word and block boundary
        mls = sorted(set([0, 1, 7, 8, 9, rate - 1, rate, rate + 1, rate + rate // 2 + 1, 2 * rate, 2 * rate + 5]))
        shapes = [(a, m) for a in (0, 1, rate, rate + 3) for m in mls]
        if not th: shapes = [(rng.choice([0, 1, rate, rate + 3]), m) for m in mls]       # every message-length class, one AD length each
        for adl, ml in shapes:
            k = pattern(rng, klen); n = pattern(rng, 16); ad = pattern(rng, adl); m = pattern(rng, ml)
            t = tape(rng)
            p.case(['aead.enc scheme=%s k=%s n=%s ad=%s m=%s fam=masked,cppm inplace=%d %s' % (sc, hx(k), hx(n), hx(ad), hx(m), rng.randrange(2), t),
                    'aead.forge scheme=%s k=%s n=%s ad=%s m=%s fam=masked,cppm muts=id;c:%d:1;k:0:1 %s' % (sc, hx(k), hx(n), hx(ad), hx(m if ml else b''), rng.randrange(ml + 16), t)],
                   cost=0.8 + (adl + ml) / 80.0)
            c.distinct([(sc, adl, ml)])

CONFIGS_Q = ['rel', 'c64', 'c32', 'ks3+ds3+ms3', 'c64+ks2+ds1+ms2', 'c32+ks4+ds4+ms4', 'ks4+ds3+ms4', 'c64+ks4+ds4']
CONFIGS_T = CONFIGS_Q + ['c32+ks3+ds2+ms3', 'ks2+ds2+ms2', 'c64+ks3+ds1+ms3', 'ks4+ds1', 'c32+ks2+ds1+ms4', 'dxor+ks3+ds3', 'generic']

def maxs_of(fl):
    for t in fl.split('+'):
        if t.startswith('ms'): return int(t[2:])
    return 4

def run(c):
    th = c.tier == 'thorough'
    c.mc_bg('MC_Masking', min_states=9)
    c.assumptions += ['values, share contents and tapes are sampled (all-zero, all-one, constant, alternating, cancelling and pseudo-random tapes); structure (share counts 2..4, partial sizes 0..7, starting rounds 0..11, conversions) is enumerated',
                      'the algebra of the scheme is exhausted on 4-bit words (MC_Masking); on the 32-bit masked back end the raw share layout is not interpreted, values are read back with the library store function']
    build_many(CONFIGS_T if th else CONFIGS_Q)
    for fl in (CONFIGS_T if th else CONFIGS_Q):
        p = Plan()
        toolkit(c, p, maxs_of(fl), th)
        aead(c, p, th)
        c.tv(p, fl, 'masked', max_cost=15.0)
    c.cov['rule'] = 'per build configuration: every masked-word operation x share count x partial size, masked permutation x 12 starting rounds, conversions, masked keys, masked AEAD end to end; distinct = (configuration shares, operation class)'
