"""C11: control flow and memory addresses never depend on secret data."""
from vlib import *
from gens import *
LEVEL = 'exploration'

def gen(c):
    rng = c.rng; th = c.tier == 'thorough'
    p = Plan()
    key = lambda n: hx(pattern(rng, n, rng.choice(['rand', 'zero', 'ff', 'bit', 'rand'])))
    def add(line, cost=1.0, tag=None):
        p.case([line], cost=cost); c.distinct([tag or line.split()[1]])
    for pre, klen, rate in (('aead128', 16, 8), ('aead128a', 16, 16), ('aead80pq', 20, 8), ('siv128', 16, 8), ('siv128a', 16, 16), ('siv80pq', 20, 8),
                            ('ascon128a', 16, 8), ('ascon128', 16, 8), ('ascon80pq', 20, 8)):
        isap = pre.startswith('ascon')
        shapes = [(0, 0), (0, 1), (3, rate - 1), (rate, rate), (rate + 1, 2 * rate + 3)] + ([(2 * rate, 3 * rate), (33, 64)] if th else [])
        if isap and pre != 'ascon128a' and not th: shapes = shapes[:3]
        for adl, ml in shapes:
            for rep in range(2 if th else 1):
                n = hx(pattern(rng, 16)); ad = hx(pattern(rng, adl))
                add('ct.call fn=%s.enc k=%s n=%s ad=%s m=%s' % (pre, key(klen), n, ad, key(ml)), 2.0, (pre, 'enc', adl, ml))
                # decryption of forged input: wrong tags differing at byte 0, 7, 8, 15, in one bit, in all bits
                for tagpos in ((0, 7, 8, 15) if th else (rng.choice([0, 7]), 15)):
                    x = bytearray(pattern(rng, ml + 16, 'rand')); x[ml + tagpos] ^= rng.choice([1, 0x80, 0xff])
                    add('ct.call fn=%s.dec k=%s n=%s ad=%s x=%s' % (pre, key(klen), n, ad, hx(bytes(x))), 2.0, (pre, 'dec', adl, ml, tagpos))
                if not isap and pre.startswith('aead'):
                    mp = 'ascon' + pre[4:]
                    for tp in (('zero', 'rand', 'ones') if th else ('rand',)):
                        add('ct.call fn=%s.menc k=%s n=%s ad=%s m=%s tape=%s tapedata=%s' % (mp, key(klen), n, ad, key(ml), tp, hx(pattern(rng, 8, 'rand'))), 2.0, (mp, 'menc', adl, ml, tp))
                        add('ct.call fn=%s.mdec k=%s n=%s ad=%s x=%s tape=%s tapedata=%s' % (mp, key(klen), n, ad, hx(pattern(rng, ml + 16, 'rand')), tp, hx(pattern(rng, 8, 'rand'))), 2.0, (mp, 'mdec', adl, ml, tp))
    for ml in (0, 1, 31, 32, 33, 70):
        add('ct.call fn=prf k=%s m=%s outlen=%d' % (key(16), key(ml), rng.choice([1, 16, 17, 40])), 1.0)
        add('ct.call fn=mac k=%s m=%s' % (key(16), key(ml)), 1.0)
        for tagpos in (0, 5, 10, 15):
            add('ct.call fn=mac_verify k=%s m=%s x=%s' % (key(16), key(ml), hx(pattern(rng, 16, 'rand'))), 1.0, ('mac_verify', ml, tagpos))
    for ml in (0, 9, 16):
        add('ct.call fn=prf_short k=%s m=%s outlen=%d' % (key(16), key(ml), rng.choice([4, 16])), 1.0)
    for kl in (0, 16, 32, 64, 65, 100):
        for fn in ('hmac', 'hmaca'): add('ct.call fn=%s k=%s m=%s' % (fn, key(kl), key(rng.choice([0, 5, 40]))), 1.5, (fn, kl))
        for fn in ('kmac', 'kmaca'): add('ct.call fn=%s k=%s m=%s ad=%s outlen=%d' % (fn, key(kl), key(rng.choice([0, 9])), hx(pattern(rng, rng.choice([0, 4]))), rng.choice([32, 20, 50])), 1.5, (fn, kl))
        for fn in ('kdf', 'kdfa'): add('ct.call fn=%s k=%s ad=%s outlen=%d' % (fn, key(kl), hx(pattern(rng, rng.choice([0, 4]))), rng.choice([16, 33])), 1.0, (fn, kl))
        for fn in ('hkdf', 'hkdfa'): add('ct.call fn=%s k=%s n=%s ad=%s outlen=%d' % (fn, key(kl), hx(pattern(rng, rng.choice([0, 8]))), hx(pattern(rng, 3)), rng.choice([16, 40, 64])), 3.0, (fn, kl))
    for cnt in (0, 1, 2, 3):
        for fn in ('pbkdf2', 'pbkdf2_hmac'): add('ct.call fn=%s k=%s n=%s count=%d outlen=%d' % (fn, key(rng.choice([0, 8, 70])), hx(pattern(rng, 8)), cnt, rng.choice([20, 40])), 3.0, (fn, cnt))
    for ol in (1, 8, 40):
        add('ct.call fn=prng k=%s m=%s outlen=%d' % (key(32), key(rng.choice([0, 3, 8])), ol), 2.0, ('prng', ol))
    # C++ cipher classes: key replaced by an equal key, by one sharing a 15-byte prefix, by an unrelated one
    for cls, klen in (('aead128', 16), ('aead128a', 16), ('aead80pq', 20), ('siv128', 16), ('siv128a', 16), ('siv80pq', 20), ('isap128a', 16),
                      ('aead128_masked', 16), ('aead128a_masked', 16), ('aead80pq_masked', 20)) + ((('isap128', 16), ('isap80pq', 20)) if th else ()):
        k1 = pattern(rng, klen, 'rand')
        for k2 in (k1, k1[:klen - 1] + bytes([k1[-1] ^ 1]), bytes([k1[0] ^ 0x80]) + k1[1:], pattern(rng, klen, 'rand')):
            add('ct.call fn=cpp:%s k=%s x=%s n=%s ad=%s m=%s tape=rand tapedata=%s' % (cls, hx(k1), hx(k2), hx(pattern(rng, 16)), hx(pattern(rng, 2)), key(5), hx(pattern(rng, 8, 'rand'))),
                3.0 if cls.startswith('isap') else 1.0, ('cpp', cls, k2 == k1))
    # a seed saved in non-volatile storage is key material: all-zero / all-ff / leading-run patterns included
    for pat in (bytes(32), bytes([255] * 32), bytes([0] * 5 + [7] * 27), bytes([255] * 9 + [1] * 23), pattern(rng, 32, 'rand'), bytes([0]) + pattern(rng, 31, 'rand')):
        add('ct.call fn=prng_seed k=%s m=%s outlen=%d' % (key(32), hx(pat), rng.choice([8, 40])), 2.0, ('prng_seed', pat[:2].hex()))
    return p

def run(c):
    th = c.tier == 'thorough'
    c.mc_bg('MC_Leak')
    c.assumptions += ['the observation comes from Valgrind/memcheck run on the shipped -O3 object code: keys, plaintexts, passwords, seed bytes and masking randomness are marked undefined, so a conditional jump or a memory address that depends on them is reported on every executed path, for all secret values at once (taint tracking); public values are lengths, nonces, associated data, ciphertext/tag inputs and the accept/reject result',
                      'additionally the sequence of ascon_permute() calls of each call is observed through a link-time wrapper and must equal the sequence ApiLeak.tla predicts from public lengths (AEAD, SIV, PRF/MAC)',
                      'timing proper (caches, micro-architecture) is not observable; shapes are sampled (lengths 0 .. several blocks)']
    p = gen(c)
    # realmask: the masking randomness comes from the library's own TRNG mixer, seeded with tainted entropy
    fls = ['rel', 'c64', 'c32', 'realmask'] + (['dxor', 'generic', 'ks3+ds3+ms3', 'c64+ks2+ds2+ms2', 'c32+ks4+ds4', 'c32+realmask', 'ks3+ds3+ms3+realmask'] if th else ['ks3+ds3+ms3'])
    build_many(fls)
    for fl in fls:
        c.tv(p, fl, 'ct', max_cost=40.0, env={'DRV_PREFIX': 'valgrind -q --error-exitcode=96 --num-callers=12'})
    c.cov['rule'] = 'one call per (primitive, public shape, secret pattern / wrong-tag position / random tape kind) under memcheck with tainted secrets, on several back ends; distinct = (primitive, shape) tuples'
