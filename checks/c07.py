"""C07: incremental APIs are invariant under chunking, aliasing, copying and re-init."""
from vlib import *
from gens import *
LEVEL = 'model_checking'
SP = {  # kind -> (rin, rout, init line template)
    'xof': (8, 8), 'xofa': (8, 8), 'hash': (8, 8), 'hasha': (8, 8), 'prf': (32, 16),
    'kmac': (8, 8), 'kmaca': (8, 8), 'kdf': (8, 8), 'kdfa': (8, 8), 'hmac': (8, 8), 'hmaca': (8, 8)}

def init_line(rng, kind, obj=1, re=0):
    s = 'sp.init kind=%s obj=%d re=%d' % (kind, obj, re)
    if not re: s += ' junk=%d' % rng.randrange(256)
    if kind == 'prf': s += ' key=%s variant=%s outlen=%d' % (hx(pattern(rng, 16)), rng.choice(['plain', 'fixed']), rng.choice([0, 16, 40]))
    elif kind in ('kmac', 'kmaca', 'kdf', 'kdfa'):
        s += ' key=%s custom=%s outlen=%d' % (hx(pattern(rng, rng.choice([0, 5, 16, 32]))), hx(pattern(rng, rng.choice([0, 0, 3, 8, 11]))), rng.choice([0, 32, 32, 48]))
    elif kind in ('hmac', 'hmaca'): s += ' key=%s' % hx(pattern(rng, rng.choice([0, 16, 32, 40, 64, 70])))
    elif kind in ('xof', 'xofa'):
        v = rng.choice(['plain', 'plain', 'fixed', 'custom'])
        s += ' variant=%s outlen=%d' % (v, rng.choice([0, 32, 64]))
        if v == 'custom': s += ' name=%s custom=%s' % (hx(bytes(rng.randrange(65, 91) for _ in range(rng.choice([1, 4, 33])))), hx(pattern(rng, rng.choice([0, 3, 9]))))
    return s

def can_absorb(kind): return kind not in ('kdf', 'kdfa')
def can_squeeze(kind): return kind not in ('hmac', 'hmaca')

def sq_line(rng, kind, n, obj=1):
    return 'sp.squeeze kind=%s obj=%d n=%d align=%d' % (kind, obj, n, rng.randrange(8))

def transitions(c, p):
    """one case per (object state class, call) transition of the MC_Sponge graph:
    absorb n bytes from count = k; squeeze n bytes from count = k."""
    rng = c.rng; th = c.tier == 'thorough'
    for kind, (rin, rout) in SP.items():
        ks = list(range(rin)); ns = sorted(set([0, 1, rin - 1, rin, rin + 1, 2 * rin, 2 * rin + 3] + list(range(0, rin + 2))))
        combos = [(k, n) for k in ks for n in ns]
        if rin == 32 and not th: combos = rng.sample(combos, 120)
        if kind in ('hash', 'hasha', 'kmaca', 'kdf', 'kdfa', 'hmaca') and not th: combos = rng.sample(combos, 30)
        if can_absorb(kind):
            for k, n in combos:
                lines = [init_line(rng, kind), 'sp.absorb kind=%s obj=1 in=%s' % (kind, hx(pattern(rng, k))),
                         'sp.absorb kind=%s obj=1 in=%s null_if_empty=%d align=%d' % (kind, hx(pattern(rng, n)), rng.randrange(2), rng.randrange(8))]
                if kind in ('hmac', 'hmaca'): lines.append('sp.hmacfinal kind=%s obj=1 key=%s' % (kind, hx(pattern(rng, 16))))
                else: lines.append(sq_line(rng, kind, rng.choice([0, 5, rout, rout + 3])))
                lines.append('sp.free kind=%s obj=1' % kind)
                p.case(lines, cost=0.4 + (k + n) / 60.0); c.distinct([(kind, 'abs', k, n)])
        if can_squeeze(kind) and kind not in ('hash', 'hasha'):
            ks = list(range(rout)); ns = sorted(set([0, 1, rout - 1, rout, rout + 1, 2 * rout, 2 * rout + 3] + list(range(0, rout + 2))))
            combos = [(k, n) for k in ks for n in ns]
            if (rout == 16 or kind not in ('xof', 'xofa')) and not th: combos = rng.sample(combos, 40)
            for k, n in combos:
                lines = [init_line(rng, kind)]
                if can_absorb(kind): lines.append('sp.absorb kind=%s obj=1 in=%s' % (kind, hx(pattern(rng, rng.choice([0, 3, rin, rin + 2])))))
                lines += [sq_line(rng, kind, k), sq_line(rng, kind, n), sq_line(rng, kind, rng.choice([1, rout])), 'sp.free kind=%s obj=1' % kind]
                p.case(lines, cost=0.5 + (k + n) / 40.0); c.distinct([(kind, 'sq', k, n)])

def long_midblock(c, p):
    """a chunk of 249 bytes or more that starts inside a block and ends d bytes into a block 256 (or 512) bytes
    later: block positions kept in narrow integers wrap exactly there."""
    rng = c.rng; th = c.tier == 'thorough'
    for kind, (rin, rout) in SP.items():
        combos = [(k, span - k + d) for span in (256, 512) for k in range(1, min(rin, 8)) for d in range(0, min(rin, 8))]
        if rin == 32: combos += [(k, 256 - k + d) for k in (9, 17, 31) for d in (0, 8, 31)]
        if not th: combos = rng.sample([x for x in combos if x[1] < 300], 3) + rng.sample([x for x in combos if x[1] > 300], 1)
        for k, n in combos:
            if can_absorb(kind):
                lines = [init_line(rng, kind), 'sp.absorb kind=%s obj=1 in=%s' % (kind, hx(pattern(rng, k))),
                         'sp.absorb kind=%s obj=1 in=%s align=%d' % (kind, hx(pattern(rng, n)), rng.randrange(8)),
                         'sp.absorb kind=%s obj=1 in=%s' % (kind, hx(pattern(rng, rng.choice([1, 3]))))]
                if kind in ('hmac', 'hmaca'): lines.append('sp.hmacfinal kind=%s obj=1 key=%s' % (kind, hx(pattern(rng, 16))))
                else: lines.append(sq_line(rng, kind, rout + 3))
                lines.append('sp.free kind=%s obj=1' % kind)
                p.case(lines, cost=0.6 + (k + n) / 40.0); c.distinct([(kind, 'abs', k, n)])
            if can_squeeze(kind) and kind not in ('hash', 'hasha'):
                k2 = k % rout or 1; n2 = n + (k - k2)
                lines = [init_line(rng, kind)]
                if can_absorb(kind): lines.append('sp.absorb kind=%s obj=1 in=%s' % (kind, hx(pattern(rng, 5))))
                lines += [sq_line(rng, kind, k2), sq_line(rng, kind, n2), sq_line(rng, kind, rout + 1), 'sp.free kind=%s obj=1' % kind]
                p.case(lines, cost=0.6 + (k + n) / 40.0); c.distinct([(kind, 'sq', k2, n2)])
    # the same for the incremental AEAD sessions
    for sc, klen, rate in (('aead128', 16, 8), ('aead128a', 16, 16), ('aead80pq', 20, 8)):
        for span in ((256, 512) if th else (256,)):
            k = rng.randrange(1, rate); d = rng.randrange(0, rate); n = span - k + d
            lines = ['inc.init scheme=%s obj=1 k=%s n=%s' % (sc, hx(pattern(rng, klen)), hx(pattern(rng, 16))),
                     'inc.start scheme=%s obj=1 ad=%s' % (sc, hx(pattern(rng, 5))),
                     'inc.enc scheme=%s obj=1 in=%s inplace=0 save=ct null_if_empty=0' % (sc, hx(pattern(rng, k))),
                     'inc.enc scheme=%s obj=1 in=%s inplace=%d save=ct+ null_if_empty=0' % (sc, hx(pattern(rng, n)), rng.randrange(2)),
                     'inc.enc scheme=%s obj=1 in=%s inplace=0 save=ct+ null_if_empty=0' % (sc, hx(pattern(rng, 3))),
                     'inc.encfin scheme=%s obj=1 save=tag' % sc, 'inc.free scheme=%s obj=1' % sc]
            p.case(lines, cost=1.0 + (k + n) / 20.0); c.distinct([('session-long', sc, k, n)])

def walks(c, p, count):
    """random call sequences mixing chunked absorb/squeeze, copies at any point, pad, duplex re-absorb, re-init"""
    rng = c.rng
    for i in range(count):
        kind = rng.choice(list(SP))
        rin, rout = SP[kind]
        lines = [init_line(rng, kind)]; live = [1]; nxt = 2; cost = 0.5
        for step in range(rng.randrange(3, 12)):
            o = rng.choice(live)
            a = rng.choice(['abs', 'abs', 'abs', 'sq', 'sq', 'copy', 'pad', 'reinit', 'abs0', 'sq0'])
            if a in ('abs', 'abs0') and can_absorb(kind):
                n = 0 if a == 'abs0' else rng.choice([1, rin - 1, rin, rin + 1, rng.randrange(0, 3 * rin + 2)])
                lines.append('sp.absorb kind=%s obj=%d in=%s null_if_empty=%d' % (kind, o, hx(pattern(rng, n)), rng.randrange(2))); cost += n / 60.0
            elif a in ('sq', 'sq0') and can_squeeze(kind):
                n = 0 if a == 'sq0' else rng.choice([1, rout - 1, rout, rout + 1, rng.randrange(0, 3 * rout + 2)])
                lines.append(sq_line(rng, kind, n, o)); cost += n / 40.0
            elif a == 'copy' and kind in ('xof', 'xofa', 'hash', 'hasha') and len(live) < 3:
                lines.append('sp.copy kind=%s obj=%d src=%d junk=%d' % (kind, nxt, o, rng.randrange(256))); live.append(nxt); nxt += 1
            elif a == 'pad' and kind in ('xof', 'xofa'):
                lines.append('sp.pad kind=%s obj=%d' % (kind, o))
            elif a == 'reinit':
                lines.append(init_line(rng, kind, o, re=1)); cost += 0.3
        for o in live: lines.append('sp.free kind=%s obj=%d' % (kind, o))
        p.case(lines, cost=cost); c.distinct([('walk', kind, i)])

def sessions(c, p, count):
    """incremental AEAD: chunked encrypt and decrypt (in place and not), several packets per
    session object, re-init after use; the decrypt side is fed the recorded ciphertext and tag."""
    rng = c.rng
    for i in range(count):
        sc, klen, rate = rng.choice([('aead128', 16, 8), ('aead128a', 16, 16), ('aead80pq', 20, 8)])
        k = pattern(rng, klen); n = pattern(rng, 16)
        lines = ['inc.init scheme=%s obj=1 k=%s n=%s junk=%d' % (sc, hx(k), hx(n), rng.randrange(256)),
                 'inc.init scheme=%s obj=2 k=%s n=%s' % (sc, hx(k), hx(n))]
        cost = 1.0
        for pkt in range(rng.choice([1, 2, 3])):
            ad = pattern(rng, rng.choice([0, 1, rate, rate + 3, 2 * rate]))
            total = rng.choice([0, 1, rate - 1, rate, rate + 1, 2 * rate + 5, rng.randrange(0, 4 * rate)])
            ch = chunks(rng, total, rate)
            lines.append('inc.start scheme=%s obj=1 ad=%s null_if_empty=%d' % (sc, hx(ad), rng.randrange(2)))
            reg = 'ct%d' % pkt
            first = True
            for n_ in ch:
                lines.append('inc.enc scheme=%s obj=1 in=%s inplace=%d save=%s%s null_if_empty=%d' % (sc, hx(pattern(rng, n_)), rng.randrange(2), reg, '' if first else '+', rng.randrange(2)))
                first = False
            lines.append('inc.encfin scheme=%s obj=1 save=tag%d' % (sc, pkt))
            # the receiving session decrypts with a different chunking
            lines.append('inc.start scheme=%s obj=2 ad=%s' % (sc, hx(ad)))
            off = 0
            for n_ in chunks(rng, total, rate):
                lines.append('inc.dec scheme=%s obj=2 in=@%s:%d:%d inplace=%d' % (sc, reg, off, n_, rng.randrange(2))); off += n_
            if off < total: lines.append('inc.dec scheme=%s obj=2 in=@%s:%d:%d' % (sc, reg, off, total - off))
            lines.append('inc.decfin scheme=%s obj=2 tag=@tag%d' % (sc, pkt))
            cost += 0.5 + (len(ad) + 2 * total) / 40.0
            if rng.random() < 0.3:   # re-init a used object: must behave like a fresh one
                k = pattern(rng, klen); n = pattern(rng, 16)
                how = rng.choice(['both', 'both', 'nnull', 'knull', 'nself'])       # NULL nonce / NULL key = all zero; the state's own nonce field = keep it
                arg = {'both': 'k=%s n=%s' % (hx(k), hx(n)), 'nnull': 'k=%s n=- nnull=1' % hx(k), 'knull': 'k=- n=%s knull=1' % hx(n), 'nself': 'k=%s n=- nself=1' % hx(k)}[how]
                for o in (1, 2): lines.append('inc.init scheme=%s obj=%d re=1 %s' % (sc, o, arg))
        lines += ['inc.free scheme=%s obj=1' % sc, 'inc.free scheme=%s obj=2' % sc]
        p.case(lines, cost=cost); c.distinct([('session', sc, i)])

def run(c):
    th = c.tier == 'thorough'
    c.mc_bg('MC_Sponge', disabled=('DoCopy', 'DoSqueeze2', 'ReAbsorb'))
    c.mc_bg('MC_Sponge', 'MC_SpongeCopy', disabled=('ReAbsorb',))
    c.mc_bg('MC_Sponge', 'MC_SpongeDuplex', disabled=('DoCopy', 'DoSqueeze2'))
    c.mc_bg('MC_Aead', 'MC_Aead' if c.tier == 'thorough' else 'MC_AeadQ')
    c.mc_bg('MC_Hkdf')
    p = Plan()
    transitions(c, p)
    walks(c, p, 1500 if th else 90)
    sessions(c, p, 600 if th else 45)
    hkdf_cases(c, p)
    twins(c, p)
    long_midblock(c, p)
    inplace_inside_block(c, p)
    c.assumptions += ['the partition space is exhausted on the symbolic models (all chunk lengths 0..bound, bound = 2 blocks + 5; copy/duplex 1 block + 5); the real library is driven through every (count, call length) transition class and seeded random histories',
                      'byte VALUES are sampled']
    c.tv(p, 'rel', 'chunk', max_cost=25.0)
    if not th:
        c.tv_sample(p, 'chunk', ('c32', 'c64', 'dxor'), k=60, max_cost=15.0, pred=lambda cs: cs[1] < 3)   # the byte helpers behind partial blocks differ per back end
    if th:
        for fl in ('c32', 'dxor', 'c64'):
            c.tv(p, fl, 'chunk', max_cost=25.0)
    c.cov['exhaustive'] = True
    c.cov['rule'] = 'MC: all call sequences within bounds; TV: one case per (kind, count, chunk length) transition + random walks with copies/pad/duplex/re-init + AEAD sessions with independent enc/dec chunkings'

def inplace_inside_block(c, p):
    """incremental AEAD with input and output the same memory, cut so that calls begin and end strictly inside a rate
    block, reach its end exactly, and run over it - for encryption and decryption"""
    rng = c.rng
    for sc, klen, rate in [('aead128', 16, 8), ('aead128a', 16, 16), ('aead80pq', 20, 8)]:
        for cuts in ([3, 2, 1, 1, rate, 2, 0, 5], [1] * (rate + 3), [rate - 1, 1, 1, rate - 2, 3], [2, rate, 1, 2 * rate + 1, 1]):
            k = pattern(rng, klen); n = pattern(rng, 16); ad = pattern(rng, rng.choice([0, 5]))
            lines = ['inc.init scheme=%s obj=1 k=%s n=%s' % (sc, hx(k), hx(n)), 'inc.init scheme=%s obj=2 k=%s n=%s' % (sc, hx(k), hx(n)),
                     'inc.start scheme=%s obj=1 ad=%s' % (sc, hx(ad))]
            first = True
            for n_ in cuts:
                lines.append('inc.enc scheme=%s obj=1 in=%s inplace=1 save=ct%s' % (sc, hx(pattern(rng, n_, 'rand')), '' if first else '+')); first = False
            lines += ['inc.encfin scheme=%s obj=1 save=tag' % sc, 'inc.start scheme=%s obj=2 ad=%s' % (sc, hx(ad))]
            off = 0
            for n_ in reversed(cuts):
                lines.append('inc.dec scheme=%s obj=2 in=@ct:%d:%d inplace=1' % (sc, off, n_)); off += n_
            lines += ['inc.decfin scheme=%s obj=2 tag=@tag' % sc, 'inc.free scheme=%s obj=1' % sc, 'inc.free scheme=%s obj=2' % sc]
            p.case(lines, cost=1.5); c.distinct([(sc, 'inplace', tuple(cuts))])

def twins(c, p):
    """the one-shot calls the incremental interfaces are compared with (both sides are judged against the same
    specification function): the same keys through both forms at the lengths where either side switches path"""
    rng = c.rng
    for kind in ('hmac', 'hmaca'):
        for kl in (0, 16, 63, 64, 65, 100):
            k = pattern(rng, kl, 'rand'); m = pattern(rng, rng.choice([0, 7, 40]), 'rand')
            p.case(['os.hmac kind=%s key=%s in=%s' % (kind, hx(k), hx(m)),
                    'sp.init kind=%s obj=1 key=%s' % (kind, hx(k)), 'sp.absorb kind=%s obj=1 in=%s' % (kind, hx(m[:3])), 'sp.absorb kind=%s obj=1 in=%s' % (kind, hx(m[3:])),
                    'sp.hmacfinal kind=%s obj=1 key=%s' % (kind, hx(k)), 'sp.free kind=%s obj=1' % kind], cost=2.0 + kl / 40.0)
            c.distinct([(kind, 'twin', kl)])
    for kind in ('kmac', 'kmaca'):
        for n in (0, 16, 32, 33):
            k = pattern(rng, rng.choice([0, 16, 40]), 'rand'); m = pattern(rng, 13, 'rand'); cu = pattern(rng, rng.choice([0, 5]))
            p.case(['os.kmac kind=%s key=%s in=%s custom=%s n=%d' % (kind, hx(k), hx(m), hx(cu), n),
                    'sp.init kind=%s obj=1 key=%s custom=%s outlen=%d' % (kind, hx(k), hx(cu), n), 'sp.absorb kind=%s obj=1 in=%s' % (kind, hx(m[:8])), 'sp.absorb kind=%s obj=1 in=%s' % (kind, hx(m[8:])),
                    'sp.squeeze kind=%s obj=1 n=%d' % (kind, n // 2), 'sp.squeeze kind=%s obj=1 n=%d' % (kind, n - n // 2), 'sp.free kind=%s obj=1' % kind], cost=1.5)
            c.distinct([(kind, 'twin', n)])
    for kind in ('hash', 'hasha'):
        for ml in (0, 7, 8, 9, 40):
            m = pattern(rng, ml, 'rand')
            p.case(['os.hash kind=%s in=%s' % (kind, hx(m)), 'sp.init kind=%s obj=1' % kind, 'sp.absorb kind=%s obj=1 in=%s' % (kind, hx(m[:5])), 'sp.absorb kind=%s obj=1 in=%s' % (kind, hx(m[5:])),
                    'sp.squeeze kind=%s obj=1 n=32' % kind, 'sp.free kind=%s obj=1' % kind], cost=0.6)
            c.distinct([(kind, 'twin', ml)])

def hkdf_cases(c, p):
    rng = c.rng; th = c.tier == 'thorough'
    for kind in ('hkdf', 'hkdfa'):
        for i in range(40 if th else 10):
            total = rng.choice([0, 1, 31, 32, 33, 64, 65, 100, 200])
            lines = ['hkdf.extract kind=%s obj=1 key=%s salt=%s junk=%d' % (kind, hx(pattern(rng, rng.choice([0, 16, 32, 80]))), hx(pattern(rng, rng.choice([0, 13, 64, 70]))), rng.randrange(256))]
            info = hx(pattern(rng, rng.choice([0, 0, 10, 40])))
            for n in chunks(rng, total, 32):
                lines.append('hkdf.expand kind=%s obj=1 info=%s n=%d' % (kind, info, n))
            lines.append('hkdf.free kind=%s obj=1' % kind)
            p.case(lines, cost=3.0 + total / 16.0); c.distinct([(kind, 'expand', i)])
        # the last permitted block (255), reached through the documented public fields, handed out in pieces
        for i in range(12 if th else 4):
            a = rng.randrange(1, 32); b = rng.randrange(1, 33 - a)
            reqs = [a, b] + ([32 - a - b] if a + b < 32 and rng.random() < 0.7 else []) + [rng.choice([0, 1, 5])]
            lines = ['hkdf.extract kind=%s obj=1 key=%s salt=%s' % (kind, hx(pattern(rng, 16)), hx(pattern(rng, 9))),
                     'hkdf.expand kind=%s obj=1 info=%s n=32' % (kind, hx(b'lim')), 'hkdf.poke kind=%s obj=1 counter=255' % kind]
            for r in reqs: lines.append('hkdf.expand kind=%s obj=1 info=%s n=%d' % (kind, hx(b'lim'), r))
            lines.append('hkdf.free kind=%s obj=1' % kind)
            p.case(lines, cost=5.0); c.distinct([(kind, 'lastblock', tuple(reqs))])
