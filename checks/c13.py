"""C13: freed, cleared and destroyed objects retain nothing derived from secrets."""
from vlib import *
from gens import *
import random
LEVEL = 'model_checking'

class Gen:
    """one history generator run twice: `shape` random choices are identical in both runs (public
    shape), `sec(n)` returns different secret bytes in run A and run B"""
    def __init__(self, seed, run):
        self.shape = random.Random(seed); self.s = random.Random(seed * 7919 + 13 + run)
    def sec(self, n): return hx(bytes(self.s.randrange(256) for _ in range(n)))
    def pub(self, n): return hx(bytes(self.shape.randrange(256) for _ in range(n)))

def histories():
    H = []
    def add(name, f): H.append((name, f))
    # permutation state
    add('perm', lambda g, w: ['perm.init obj=1', 'perm.set obj=1 data=%s' % g.sec(40), 'perm.permute obj=1 r=%d' % g.shape.randrange(12), 'perm.free obj=1 dump_raw=1 wipe=%d' % w])
    # sponge-shaped objects: several histories each, incl. block-aligned ones (count = 0, mode = 0)
    for kind in ('xof', 'xofa', 'hash', 'hasha', 'prf', 'kmac', 'kmaca', 'kdf', 'kdfa', 'hmac', 'hmaca'):
        def init(g, kind=kind):
            s = 'sp.init kind=%s obj=1' % kind
            if kind == 'prf': s += ' key=%s' % g.sec(16)
            elif kind in ('kmac', 'kmaca', 'kdf', 'kdfa'): s += ' key=%s custom=%s outlen=%d' % (g.sec(g.shape.choice([8, 16, 13])), g.pub(3), g.shape.choice([0, 32]))
            elif kind in ('hmac', 'hmaca'): s += ' key=%s' % g.sec(g.shape.choice([16, 64, 70]))
            return s
        absorb = kind not in ('kdf', 'kdfa'); squeeze = kind not in ('hmac', 'hmaca')
        rin = 32 if kind == 'prf' else 8
        for hist in ('init', 'absorb', 'aligned', 'squeeze', 'squeeze_aligned', 'reabsorb', 'pad', 'copy', 'reinit'):
            def f(g, w, kind=kind, hist=hist, init=init, absorb=absorb, squeeze=squeeze, rin=rin):
                L = [init(g)]
                fr = 'sp.free kind=%s obj=1 dump_raw=1 wipe=%d' % (kind, w)
                if hist == 'init': return L + [fr]
                if hist in ('absorb', 'aligned', 'reabsorb', 'pad', 'copy', 'reinit') and not absorb: return None
                if hist in ('squeeze', 'squeeze_aligned', 'reabsorb') and not squeeze: return None
                n = {'absorb': g.shape.choice([1, 5, rin + 3]), 'aligned': g.shape.choice([rin, 2 * rin])}.get(hist, g.shape.choice([3, rin, rin + 1]))
                if absorb: L.append('sp.absorb kind=%s obj=1 in=%s' % (kind, g.sec(n)))
                if hist in ('squeeze', 'squeeze_aligned', 'reabsorb'):
                    L.append('sp.squeeze kind=%s obj=1 n=%d' % (kind, 32 if kind in ('hash', 'hasha') else (16 if hist == 'squeeze_aligned' else 5)))
                if hist == 'reabsorb' and kind not in ('hash', 'hasha'): L.append('sp.absorb kind=%s obj=1 in=%s' % (kind, g.sec(rin)))
                if hist == 'pad':
                    if kind not in ('xof', 'xofa'): return None
                    L.append('sp.pad kind=%s obj=1' % kind)
                if hist == 'copy':
                    if kind not in ('xof', 'xofa', 'hash', 'hasha'): return None
                    L += ['sp.copy kind=%s obj=2 src=1' % kind, 'sp.free kind=%s obj=2 dump_raw=1 wipe=%d' % (kind, w + 500)]
                if hist == 'reinit': L += [init(g).replace('obj=1', 'obj=1 re=1'), 'sp.absorb kind=%s obj=1 in=%s' % (kind, g.sec(4))] if kind not in ('hmac', 'hmaca') else [init(g).replace('obj=1', 'obj=1 re=1')]
                return L + [fr]
            add('%s.%s' % (kind, hist), f)
    # incremental AEAD
    for sc, kl in (('aead128', 16), ('aead128a', 16), ('aead80pq', 20)):
        for hist in ('init', 'start', 'mid', 'final', 'decfail'):
            def f(g, w, sc=sc, kl=kl, hist=hist):
                L = ['inc.init scheme=%s obj=1 k=%s n=%s' % (sc, g.sec(kl), g.pub(16))]
                if hist != 'init': L.append('inc.start scheme=%s obj=1 ad=%s' % (sc, g.pub(g.shape.choice([0, 5]))))
                if hist in ('mid', 'final'): L.append('inc.enc scheme=%s obj=1 in=%s' % (sc, g.sec(g.shape.choice([3, 8, 19]))))
                if hist == 'final': L.append('inc.encfin scheme=%s obj=1' % sc)
                if hist == 'decfail': L += ['inc.dec scheme=%s obj=1 in=%s' % (sc, g.pub(7)), 'inc.decfin scheme=%s obj=1 tag=%s' % (sc, g.pub(16))]
                return L + ['inc.free scheme=%s obj=1 dump_raw=1 wipe=%d' % (sc, w)]
            add('inc.%s.%s' % (sc, hist), f)
    # HKDF incl. the exhausted object (counter wrapped to 0)
    for kind in ('hkdf', 'hkdfa'):
        for hist in ('extract', 'expand', 'partial', 'exhausted', 'last_block'):
            def f(g, w, kind=kind, hist=hist):
                L = ['hkdf.extract kind=%s obj=1 key=%s salt=%s' % (kind, g.sec(20), g.pub(8))]
                if hist == 'expand': L.append('hkdf.expand kind=%s obj=1 info=- n=64' % kind)
                if hist == 'partial': L.append('hkdf.expand kind=%s obj=1 info=%s n=41' % (kind, g.pub(3)))
                if hist in ('exhausted', 'last_block'):
                    L += ['hkdf.expand kind=%s obj=1 info=- n=32' % kind, 'hkdf.poke kind=%s obj=1 counter=255' % kind, 'hkdf.expand kind=%s obj=1 info=- n=%d' % (kind, 40 if hist == 'exhausted' else 20)]
                return L + ['hkdf.free kind=%s obj=1 dump_raw=1 wipe=%d' % (kind, w)]
            add('%s.%s' % (kind, hist), f)
    # PRNG
    for hist in ('init', 'fetch', 'feed', 'reseed'):
        def f(g, w, hist=hist):
            L = ['prng.init obj=1 src=1:%s,1:%s' % (g.sec(32), g.sec(32))]
            if hist == 'fetch': L.append('prng.fetch obj=1 n=%d' % g.shape.choice([1, 8, 40]))
            if hist == 'feed': L.append('prng.feed obj=1 in=%s' % g.sec(g.shape.choice([3, 8])))
            if hist == 'reseed': L.append('prng.reseed obj=1')
            return L + ['prng.free obj=1 dump_raw=1 wipe=%d' % w]
        add('prng.' + hist, f)
    # ISAP pre-computed keys, masked keys and states
    for sc, kl in (('isap128', 16), ('isap128a', 16), ('isap80pq', 20)):
        for hist in ('init', 'used', 'loaded'):
            def f(g, w, sc=sc, kl=kl, hist=hist):
                L = ['isapkey.init scheme=%s obj=1 k=%s' % (sc, g.sec(kl))]
                if hist == 'used' and sc == 'isap128a': L.append('isapkey.enc scheme=%s obj=1 n=%s ad=- in=%s' % (sc, g.pub(16), g.sec(5)))
                if hist == 'loaded': L += ['isapkey.save scheme=%s obj=1 save=sk' % sc, 'isapkey.load scheme=%s obj=2 saved=@sk' % sc, 'isapkey.free scheme=%s obj=2 dump_raw=1 wipe=%d' % (sc, w + 500)]
                return L + ['isapkey.free scheme=%s obj=1 dump_raw=1 wipe=%d' % (sc, w)]
            add('isapkey.%s.%s' % (sc, hist), f)
    for bits, kl in ((128, 16), (160, 20)):
        for hist in ('init', 'randomized'):
            def f(g, w, bits=bits, kl=kl, hist=hist):
                L = ['mk.op name=init bits=%d obj=1 key=%s tape=rand tapedata=%s' % (bits, g.sec(kl), g.sec(8))]
                if hist == 'randomized': L.append('mk.op name=randomize bits=%d obj=1 tape=rand tapedata=%s' % (bits, g.sec(8)))
                return L + ['mk.op name=free bits=%d obj=1 dump_raw=1 wipe=%d' % (bits, w)]
            add('mkey%d.%s' % (bits, hist), f)
    for n in (2, 3, 4):
        add('mstate.x%d' % n, lambda g, w, n=n: ['ms.op name=load n=%d obj=1 data=%s tape=rand tapedata=%s' % (n, g.sec(40), g.sec(8)), 'ms.op name=permute n=%d obj=1 r=0' % n, 'ms.op name=free n=%d obj=1 dump_raw=1 wipe=%d' % (n, w)])
    # the primitive every free/clear function rests on: exactly the named range becomes zero
    for n, off, tot in ((0, 0, 0), (0, 3, 8), (1, 0, 1), (1, 7, 9), (7, 1, 9), (8, 0, 8), (9, 3, 16), (40, 0, 40), (41, 5, 64), (255, 1, 257), (1024, 0, 1024), (66, 1, 70), (66, 3, 72), (36, 4, 44), (13, 5, 24), (9, 7, 16), (3, 2, 8)):
        add('clean.%d.%d' % (n, off), lambda g, w, n=n, off=off, tot=tot: ['util.clean in=%s off=%d n=%d align=%d null_if_empty=%d' % (g.sec(tot) if tot else '-', off, n, g.shape.randrange(8), 1 if tot == 0 else 0)])
    # C++ cipher objects: destructor and clear(), after use
    for cls, kl in (('aead128', 16), ('aead128a', 16), ('aead80pq', 20), ('siv128', 16), ('siv128a', 16), ('siv80pq', 20), ('isap128a', 16), ('isap128', 16), ('isap80pq', 20),
                    ('aead128_masked', 16), ('aead128a_masked', 16), ('aead80pq_masked', 20)):
        for hist in ('dtor', 'dtor_used', 'clear', 'setkey_dtor'):
            def f(g, w, cls=cls, kl=kl, hist=hist):
                L = ['cpp.new cls=%s obj=1 how=key key=%s tape=rand tapedata=%s' % (cls, g.sec(kl), g.sec(8)), 'cpp.set_nonce obj=1 n=%s' % g.sec(16)]
                if hist == 'dtor_used' and cls not in ('isap128', 'isap80pq'): L.append('cpp.enc obj=1 m=%s ad=- form=ptr tape=rand' % g.sec(6))
                if hist == 'setkey_dtor': L = ['cpp.new cls=%s obj=1 how=default' % cls, 'cpp.set_key obj=1 key=%s tape=rand tapedata=%s' % (g.sec(kl), g.sec(8))]
                if hist == 'clear': return L + ['cpp.clear obj=1 dump_raw=1 wipe=%d' % w, 'cpp.del obj=1']
                return L + ['cpp.del obj=1 dump_raw=1 wipe=%d' % w]
            add('cpp.%s.%s' % (cls, hist), f)
    return H

CXX_CLS = ['hash', 'hasha', 'xof', 'xofa', 'xof32', 'xofa64']
def cxx_histories():
    H = []
    for cls in CXX_CLS:
        for hist in ('absorb', 'aligned', 'squeezed', 'copy', 'assigned', 'reset'):
            def f(g, w, cls=cls, hist=hist):
                L = ['cxh.new cls=%s obj=1 how=default' % cls, 'cxh.absorb obj=1 in=%s form=ptr' % g.sec(8 if hist == 'aligned' else 5)]
                if hist == 'squeezed': L.append('cxh.squeeze obj=1 n=32 form=ptr')
                if hist == 'copy': L += ['cxh.new cls=%s obj=2 how=copy src=1' % cls, 'cxh.del obj=2 dump_raw=1 wipe=%d' % (w + 500)]
                # an object that held other secrets and is then assigned from / reset
                if hist == 'assigned': L += ['cxh.new cls=%s obj=2 how=default' % cls, 'cxh.absorb obj=2 in=%s form=ptr' % g.sec(11), 'cxh.assign obj=2 src=1', 'cxh.del obj=2 dump_raw=1 wipe=%d' % (w + 500)]
                if hist == 'reset': L += ['cxh.reset obj=1']
                return L + ['cxh.del obj=1 dump_raw=1 wipe=%d' % w]
            H.append(('cxh.%s.%s' % (cls, hist), f))
    return H

def plan_of(c, hs, maxs=4):
    p = Plan(); w = 1
    for name, f in hs:
        if name.startswith('mstate.x') and int(name[-1]) > maxs: continue
        seed = c.rng.randrange(1 << 30)
        a = f(Gen(seed, 0), w); b = f(Gen(seed, 1), w)
        if a is None: continue
        assert len(a) == len(b)
        slow = 'isap128.' in name or 'isap80pq' in name
        p.case(a + b, cost=2.5 if slow else 0.4, tag=name); c.distinct([name]); w += 1
    return p

def run(c):
    th = c.tier == 'thorough'
    c.assumptions += ['2-safety by trace: every history is run twice with different secrets and equal public shape; the raw bytes of the object after free / clear / destructor must be identical (not necessarily zero)',
                      'objects live in zero-filled driver storage (C++ objects are built with placement new there), so padding is deterministic; the library is the -O3 Release build actually shipped',
                      'histories are enumerated per object type (init only, absorbed, block-aligned, squeezed, re-absorbed, padded, copied, re-initialised, exhausted HKDF, failed decrypt, ...); secret VALUES are sampled']
    flavours = ['rel', 'c64', 'c32', 'dxor'] + (['generic', 'ks3+ds3+ms3', 'c64+ks2+ds2+ms2', 'c32+ks4+ds4'] if th else [])
    build_many(flavours)
    hs = histories()
    for rep in range(4 if th else 1):
        for fl in flavours:
            ms = 4
            for t in fl.split('+'):
                if t.startswith('ms'): ms = int(t[2:])
            c.tv(plan_of(c, hs, ms), fl, 'wipe', max_cost=20.0)
    # share configurations in which fewer shares are used than a masked word has room for: the masked objects only
    mh = [(n, f) for n, f in hs if n.startswith('mstate.') or n.startswith('mkey') or '_masked.' in n]
    cfgs = ['ks2+ds2', 'ks3+ds2', 'c32+ks2+ds1'] + (['c64+ks3+ds3', 'ks2+ds1+ms3'] if th else [])
    build_many(cfgs)
    for fl in cfgs:
        c.tv(plan_of(c, mh, 4 if 'ms3' not in fl else 3), fl, 'wipemasked', max_cost=20.0)
    # a C library without explicit_bzero / memset_s (ascon_clean falls back to its own loop): the primitive itself at
    # every (length, offset, alignment) class, and the objects whose size is not a multiple of 8
    ch = [(n, f) for n, f in hs if n.startswith('clean.') or n.startswith('hkdf') or '80pq' in n or n.startswith('perm')]
    c.tv(plan_of(c, ch), 'nobzero', 'wipeloop', max_cost=20.0)
    drv, cmd, out = build_extra('cxx')
    if drv: c.tv(plan_of(c, cxx_histories()), 'rel', 'wipecxx', drv=drv, max_cost=20.0)
    c.cov['exhaustive'] = True
    c.cov['object_histories'] = len(hs) + len(cxx_histories())
    c.cov['rule'] = 'one case per (object type, history before the free/clear/destructor), each executed with two secret sets; distinct = histories'
