"""C20: hex codec round-trips and rejects bad input; non-STL byte_array is a vector."""
from vlib import *
from gens import *
LEVEL = 'model_checking'
WS = [32, 9, 13, 10, 12, 11]

def hex_plan(c):
    rng = c.rng; th = c.tier == 'thorough'
    p = Plan()
    # every single character (0..255) as the only non-digit in an otherwise valid string, and alone
    lines = []
    for ch in range(256):
        lines.append('hex.from str=%s space=4' % hx(bytes([0x31, ch, 0x32, 0x33])))
        lines.append('hex.from str=%s space=1' % hx(bytes([ch])))
    p.case(lines, cost=5.0); c.distinct([('char', ch) for ch in range(256)])
    # all strings of length <= 4 over the class alphabet x space 0..3 (the MC_Hex space, concretely)
    alpha = [0x33, 0x61, 0x46, 0x20, 0x0a, 0x67, 0x47, 0x2f, 0x3a, 0x40, 0x60, 0x00]
    import itertools
    strs = [bytes(t) for k in range(0, 4 if not th else 5) for t in itertools.product(alpha, repeat=k)]
    if not th: strs = rng.sample(strs, 600) + [b'', b'3', b'3a', b'3 a', b' 3a ', b'3a3']
    lines = []
    for s in strs:
        lines.append('hex.from str=%s space=%d align=%d null_if_empty=%d' % (hx(s), rng.randrange(4), rng.randrange(8), rng.randrange(2)))
        if len(lines) >= 300: p.case(lines, cost=4.0); lines = []
    if lines: p.case(lines, cost=4.0)
    c.distinct([('str', s) for s in strs])
    # round trip of random byte strings, exact / insufficient / generous space, both cases; whitespace-laden input
    lines = []
    for _ in range(400 if th else 80):
        n = rng.choice([0, 1, 2, 5, 16, 33, rng.randrange(0, 300)]); d = pattern(rng, n)
        up = rng.randrange(2)
        for sp in (2 * n + 1, 2 * n, max(0, 2 * n - 1), 0, 2 * n + 9):
            lines.append('hex.to in=%s space=%d upper=%d null_if_empty=%d oalign=%d' % (hx(d), sp, up, rng.randrange(2), rng.randrange(8)))
        h = d.hex().upper() if up else d.hex()
        # sprinkle whitespace and decode into exact, short and long buffers
        s = ''.join((chr(rng.choice(WS)) if rng.random() < 0.2 else '') + ch for ch in h) + (' ' if rng.random() < 0.3 else '')
        for sp in (n, n + 3, max(0, n - 1)):
            lines.append('hex.from str=%s space=%d' % (hx(s.encode()), sp))
        if len(lines) >= 240: p.case(lines, cost=5.0); lines = []
        c.distinct([('rt', n, up)])
    if lines: p.case(lines, cost=5.0)
    return p

def ba_plan(c):
    """random walks over up to 4 aliased variables; a size shadow is kept only to generate valid indices"""
    rng = c.rng; th = c.tier == 'thorough'
    p = Plan()
    def walk(depth):
        lines = []; sizes = {}
        def live(): return list(sizes)
        for step in range(depth):
            ops = ['new', 'copy', 'assign', 'resize', 'push', 'push_from', 'pop', 'index_set', 'data_set', 'index_get', 'reserve', 'clear', 'cmp', 'iter', 'del']
            op = rng.choice(ops)
            if not sizes or (op == 'new' and len(sizes) < 4):
                v = max(sizes) + 1 if sizes else 1
                how = rng.choice(['default', 'sized', 'sized0'])
                n = rng.choice([0, 1, 3, 8, 15, 16, 17, 33])
                lines.append('ba.new obj=%d how=%s n=%d value=%d' % (v, how, n, rng.randrange(1, 256))); sizes[v] = 0 if how == 'default' else n
            elif op == 'copy' and len(sizes) < 4:
                v = max(sizes) + 1; s = rng.choice(live()); lines.append('ba.new obj=%d how=copy src=%d' % (v, s)); sizes[v] = sizes[s]
            elif op == 'assign':
                v = rng.choice(live()); s = rng.choice(live()); lines.append('ba.assign obj=%d src=%d' % (v, s)); sizes[v] = sizes[s]
            elif op == 'resize':
                v = rng.choice(live()); n = rng.choice([0, 1, 2, 3, 8, 15, 16, 17, 20, 40, max(0, sizes[v] - 1), sizes[v] + 1])
                lines.append('ba.resize obj=%d n=%d' % (v, n)); sizes[v] = n
            elif op == 'push':
                v = rng.choice(live()); lines.append('ba.push obj=%d value=%d' % (v, rng.randrange(1, 256))); sizes[v] += 1
            elif op == 'push_from':
                cand = [v for v in live() if sizes[v] > 0]
                if not cand: continue
                s = rng.choice(cand); v = rng.choice([s, s, rng.choice(live())])
                lines.append('ba.push_from obj=%d src=%d pos=%d via=%s' % (v, s, rng.choice([0, sizes[s] - 1, rng.randrange(sizes[s])]), rng.choice(['index', 'cindex', 'data', 'iter']))); sizes[v] += 1
            elif op == 'pop':
                v = rng.choice(live()); lines.append('ba.pop obj=%d' % v); sizes[v] = max(0, sizes[v] - 1)
            elif op in ('index_set', 'data_set', 'index_get'):
                cand = [v for v in live() if sizes[v] > 0]
                if not cand: continue
                v = rng.choice(cand); pos = rng.choice([0, sizes[v] - 1, rng.randrange(sizes[v])])
                if op == 'index_get': lines.append('ba.index_get obj=%d pos=%d const=%d' % (v, pos, rng.randrange(2)))
                else: lines.append('ba.%s obj=%d pos=%d value=%d' % (op, v, pos, rng.randrange(1, 256)))
            elif op == 'reserve':
                v = rng.choice(live()); lines.append('ba.reserve obj=%d n=%d' % (v, rng.choice([0, 1, 16, 17, 64])))
            elif op == 'clear':
                v = rng.choice(live()); lines.append('ba.clear obj=%d' % v); sizes[v] = 0
            elif op == 'cmp':
                lines.append('ba.cmp obj=%d other=%d' % (rng.choice(live()), rng.choice(live())))
            elif op == 'iter':
                lines.append('ba.iter obj=%d const=%d' % (rng.choice(live()), rng.randrange(2)))
            elif op == 'del' and len(sizes) > 1:
                v = rng.choice(live()); lines.append('ba.del obj=%d' % v); del sizes[v]
        return lines
    for i in range(4000 if th else 250):
        p.case(walk(40), cost=1.0); c.distinct([('walk', i)])
    # directed cases: every pair of (empty-default, empty-sized, non-empty) under all six comparisons; prefix ordering
    lines = ['ba.new obj=1 how=default', 'ba.new obj=2 how=sized n=0 value=0', 'ba.new obj=3 how=sized n=1 value=5', 'ba.new obj=4 how=sized n=2 value=5', 'ba.new obj=5 how=sized n=1 value=9']
    for a in range(1, 6):
        for b in range(1, 6): lines.append('ba.cmp obj=%d other=%d' % (a, b))
    p.case(lines, cost=1.0)
    # copy-on-write: every mutator applied to one of two aliases
    for mut in ('resize obj=2 n=2', 'resize obj=2 n=8', 'resize obj=2 n=0', 'push obj=2 value=9', 'pop obj=2', 'index_set obj=2 pos=1 value=9', 'data_set obj=2 pos=1 value=9', 'clear obj=2', 'reserve obj=2 n=64', 'index_get obj=2 pos=0 const=0', 'iter obj=2 const=0'):
        p.case(['ba.new obj=1 how=sized n=5 value=170', 'ba.new obj=2 how=copy src=1', 'ba.' + mut, 'ba.resize obj=2 n=7', 'ba.cmp obj=1 other=2',
                'ba.new obj=3 how=default', 'ba.assign obj=3 src=1', 'ba.' + mut.replace('obj=2', 'obj=3'), 'ba.resize obj=3 n=6'], cost=0.5)
    # shared buffer with spare room: size at / next to a multiple of the allocation unit, capacity above it
    for n in (0, 1, 15, 16, 17, 32, 48):
        for extra in (0, 1, 5):
            p.case(['ba.new obj=1 how=sized n=%d value=7' % n, 'ba.reserve obj=1 n=%d' % (n + extra), 'ba.new obj=2 how=copy src=1', 'ba.push obj=2 value=1', 'ba.push obj=1 value=2',
                    'ba.push obj=2 value=3', 'ba.new obj=3 how=copy src=2', 'ba.pop obj=3', 'ba.push obj=3 value=4', 'ba.push obj=2 value=5', 'ba.cmp obj=2 other=3'], cost=0.5)
            c.distinct([('sharedroom', n, extra)])
    # an element of the array pushed onto the same array exactly when it is full (the buffer moves), sole owner and shared
    for n in (1, 15, 16, 17, 32, 48):
        for via in ('index', 'cindex', 'data', 'iter'):
            p.case(['ba.new obj=1 how=sized n=%d value=7' % n, 'ba.index_set obj=1 pos=%d value=201' % (n // 2), 'ba.push_from obj=1 src=1 pos=%d via=%s' % (n // 2, via), 'ba.push_from obj=1 src=1 pos=%d via=%s' % (n, via),
                    'ba.new obj=2 how=copy src=1', 'ba.push_from obj=2 src=2 pos=%d via=%s' % (n // 2, via), 'ba.push_from obj=1 src=2 pos=%d via=%s' % (n + 2, via), 'ba.cmp obj=1 other=2'], cost=0.5)
            c.distinct([('pushself', n, via)])
    # shrink then grow within capacity: new elements are zero
    p.case(['ba.new obj=1 how=sized n=8 value=170', 'ba.resize obj=1 n=3', 'ba.resize obj=1 n=8', 'ba.new obj=2 how=sized n=16 value=1', 'ba.resize obj=2 n=0', 'ba.resize obj=2 n=16',
            'ba.pop obj=2', 'ba.push obj=2 value=4', 'ba.resize obj=2 n=17'], cost=0.5)
    p.case(['util.from_hex str=%s form=%s' % (hx(s), f) for s in (b'01 02 03', b'0a0b', b'', b'zz', b' 1 2 ') for f in ('cstr', 'len')], cost=0.5)
    # many aliases of one buffer (a reference count is wider than a byte): 300 copies, then each kind of mutation on one of them
    for mut in ('push obj=1 value=9', 'resize obj=1 n=3', 'index_set obj=1 pos=0 value=9', 'data_set obj=300 pos=1 value=8'):
        p.case(['ba.new obj=1 how=sized n=2 value=170'] + ['ba.new obj=%d how=copy src=%d' % (k, rng.choice([1, k - 1])) for k in range(2, 301)] + ['ba.' + mut, 'ba.cmp obj=1 other=2', 'ba.cmp obj=299 other=300'] +
               ['ba.del obj=%d' % k for k in range(300, 250, -1)] + ['ba.push obj=2 value=5', 'ba.cmp obj=1 other=2'], cost=12.0)
        c.distinct([('aliases300', mut.split()[0])])
    return p

def run(c):
    c.mc_bg('MC_Hex')
    c.mc_bg('MC_ByteArray', workers=6)
    c.mc_bg('MC_ByteArray', 'MC_ByteArrayNegResize', must_fail=True)   # resize through a shared buffer must be refuted
    c.mc_bg('MC_ByteArray', 'MC_ByteArrayNegCmp', must_fail=True)      # inverted sign for a null side must be refuted
    c.assumptions += ['hex: all 256 single characters, all strings up to length 3 (quick) / 4 (thorough) over the class alphabet x space 0..3, seeded random round trips',
                      'byte_array: the copy-on-write heap model is exhausted for 3 variables x 4 operations (allocation unit scaled to 2); the real class (allocation unit 16) is driven by seeded random walks of 40 operations over up to 4 aliased variables and directed aliasing cases; oracle = the TLA+ sequence model']
    c.tv(hex_plan(c), 'rel', 'hex', max_cost=12.0)
    drv, cmd, out = build_extra('nostl')
    if not drv:
        rd = c.replay_dir('compile_nostl')
        with open(rd + '/compile.log', 'w') as f: f.write(out)
        with open(rd + '/replay.sh', 'w') as f: f.write('#!/bin/sh\n' + cmd + '\n')
        c.violation('compile:nostl', 'ASCON_NO_STL configuration does not build: ' + ' | '.join([l for l in out.split('\n') if 'error' in l][:3]), rd)
    else:
        c.tv(ba_plan(c), 'rel', 'bytearray', drv=drv, max_cost=12.0)
    drvx, cmdx, outx = build_extra('cxx')
    if drvx:
        rng = c.rng; p = Plan()
        lines = []
        for _ in range(60):
            n = rng.randrange(0, 12); d = pattern(rng, n, 'rand'); h = d.hex()
            s = ''.join((chr(rng.choice(WS)) if rng.random() < 0.3 else '') + ch for ch in h)
            if rng.random() < 0.2: s += rng.choice(['g', '0', ' 1', '\x00'])
            lines += ['util.from_hex str=%s form=%s' % (hx(s.encode('latin1')), f) for f in ('len', 'string')]
        # a std::string carries its length: an embedded NUL is a character like any other (an invalid one)
        for raw in (b'4142\x00zz', b'4142\x00', b'41\x0042', b'\x00', b'\x004142', b'41 42\x00 43', b'4\x001'):
            lines += ['util.from_hex str=%s form=%s' % (hx(raw), f) for f in ('len', 'string')]
        p.case(lines, cost=3.0)
        # the C++ encoder for every length around its internal sizes, both overloads; the decoder must give the bytes back
        lines = []
        for n in sorted(set([0, 1, 2, 31, 32, 33, 63, 64, 65, 127, 128, 129, 191, 192, 193, 255, 256, 257, 300] + [rng.randrange(0, 400) for _ in range(6)])):
            d = pattern(rng, n, 'rand'); up = rng.randrange(2)
            lines += ['util.to_hex in=%s form=%s upper=%d dflt=%d' % (hx(d), f, up, rng.randrange(2)) for f in ('ptr', 'ba')]
            lines += ['util.from_hex str=%s form=string' % hx((d.hex().upper() if up else d.hex()).encode())]
            c.distinct([('cxxrt', n)])
        p.case(lines, cost=8.0)
        c.tv(p, 'rel', 'cxxhex', drv=drvx, max_cost=12.0)
    c.cov['exhaustive'] = True
    c.cov['rule'] = 'hex: per character / per class-string / per random round trip; byte_array: per random walk (40 operations) and directed aliasing case; distinct = those cases'
