"""C15: PRNG is deterministic in its entropy, forward secure, reseeds and reports status."""
from vlib import *
from gens import *
LEVEL = 'model_checking'

def draws(rng, k, fail=()):
    # 0 = the source fails, 1 = healthy, 2 / 3 = EINTR / EAGAIN once and then healthy (only the sysrng flavour tells them from 1)
    return ','.join('%d:%s' % (0 if i in fail else (2 if i % 5 == 3 else (3 if i % 5 == 1 else 1)), hx(pattern(rng, 32, 'rand'))) for i in range(k))

def gen(c):
    rng = c.rng; th = c.tier == 'thorough'
    p = Plan()
    # random histories with every kind of operation; the source fails at random draws
    for i in range(300 if th else 45):
        fail = {j for j in range(12) if rng.random() < 0.25}
        lines = ['prng.init obj=1 src=%s junk=%d' % (draws(rng, 12, fail), rng.randrange(256))]
        cost = 1.5
        for step in range(rng.randrange(3, 9)):
            a = rng.choice(['fetch', 'fetch', 'fetch', 'feed', 'reseed', 'save', 'load', 'poke'])
            if a == 'fetch':
                n = rng.choice([0, 1, 7, 8, 9, 32, 40, 100, rng.randrange(0, 300)])
                lines.append('prng.fetch obj=1 n=%d align=%d' % (n, rng.randrange(8))); cost += 0.4 + n / 100.0
            elif a == 'feed':
                lines.append('prng.feed obj=1 in=%s null_if_empty=%d' % (hx(pattern(rng, rng.choice([0, 1, 7, 8, 9, 32, 50]))), rng.randrange(2))); cost += 0.4
            elif a == 'reseed': lines.append('prng.reseed obj=1'); cost += 0.4
            elif a == 'save':
                lines.append('prng.save obj=1 size=%d wres=%d erase_size=%d page=%d' % (rng.choice([64, 32, 31, 0, 4096]), rng.choice([32, 32, 31, 0, -1]), rng.choice([0, 4096]), rng.choice([1, 32, 64, 256])) + ' partial=%d' % rng.randrange(2)); cost += 0.6
            elif a == 'load':
                lines.append('prng.load obj=1 erase_size=%d partial=%d size=%d rres=%d wres=%d page=%d content=%s' % (rng.choice([0, 4096]), rng.randrange(2), rng.choice([64, 32, 16]), rng.choice([32, 32, 31, 0, -1]), rng.choice([32, -1, 5]), rng.choice([1, 32, 64, 256]), hx(pattern(rng, 40, 'rand')))); cost += 1.2
            elif a == 'poke':
                lines.append('prng.poke obj=1 counter=%d' % rng.choice([16383, 16384, 16385, 16000, 40000, 0])); cost += 0.1
        lines.append('prng.free obj=1')
        p.case(lines, cost=cost); c.distinct([('hist', i)])
    # the reseed threshold: counter positioned around 16384, and reached honestly by fetches
    for ctr in (16383, 16384, 16385, 16352):
        for n in (1, 32, 33):
            p.case(['prng.init obj=1 src=%s' % draws(rng, 4), 'prng.poke obj=1 counter=%d' % ctr, 'prng.fetch obj=1 n=%d' % n, 'prng.fetch obj=1 n=%d' % n,
                    'prng.fetch obj=1 n=1', 'prng.free obj=1'], cost=3.0)
            c.distinct([('limit', ctr, n)])
    honest = [[1024] * 17, [16384, 1], [20000, 5, 5], [16383, 1, 1], [8192, 8192, 8]]
    if not th: honest = honest[:2]
    for seq in honest:
        p.case(['prng.init obj=1 src=%s' % draws(rng, 5)] + ['prng.fetch obj=1 n=%d' % n for n in seq] + ['prng.free obj=1'], cost=sum(seq) / 250.0 + 5)
        c.distinct([('honest', tuple(seq))])
    # empty feed ("stir") does not touch the reseed budget; feed then many fetches
    p.case(['prng.init obj=1 src=%s' % draws(rng, 4), 'prng.poke obj=1 counter=16000', 'prng.feed obj=1 in=-', 'prng.fetch obj=1 n=384', 'prng.feed obj=1 in=00', 'prng.fetch obj=1 n=1', 'prng.free obj=1'], cost=4.0)
    # status with a failing source; NULL-state conveniences; the global one-shot
    p.case(['prng.init obj=1 src=0:%s,0:%s,1:%s' % (hx(pattern(rng, 32)), hx(pattern(rng, 32)), hx(pattern(rng, 32))), 'prng.reseed obj=1', 'prng.reseed obj=1', 'prng.reseed obj=1', 'prng.free obj=1',
            'prng.null src=%s size=64' % draws(rng, 2)], cost=3.0)
    for n in [0, 1, 8, 31, 32, 33, 100]:
        p.case(['prng.global n=%d src=%s' % (n, draws(rng, 1, {0} if rng.random() < 0.4 else ())), 'prng.global n=%d via_fetch=1 src=%s' % (n, draws(rng, 1))], cost=1.0)
        c.distinct([('global', n)])
    return p

def run(c):
    c.mc_bg('MC_Prng', min_states=1500)
    # unbounded, by SMT (Apalache): the 32-bit counter field decides "16384 bytes since the last reseed" exactly,
    # for every request size and the real limit
    c.apalache_bg('PrngInd', 'Init', 'IndInv', 0)
    c.apalache_bg('PrngInd', 'IndInv', 'IndInv', 1)
    c.apalache_bg('PrngInd', 'Init', 'BadInv', 2, must_fail=True)
    c.mc_bg('MC_Sponge', 'MC_SpongeDuplex', disabled=('DoCopy', 'DoSqueeze2'))
    c.assumptions += ['the system source is substituted at link time (-Wl,--wrap=ascon_trng_generate): the tape of [ok, 32 bytes] draws is part of the trace; TLC recomputes the whole state evolution from it',
                      'the symbolic model scales the 16384-byte reseed limit to 24 bytes; the real limit is reached by positioning the counter field and by honest 17 x 1024-byte fetches',
                      'save/load status values as documented in random.h: 0 saved/loaded, -1 otherwise']
    c.tv(gen(c), 'rel', 'prng', max_cost=30.0)
    # the library's own entropy back end (ascon-trng-dev-random.c) under the same histories, getrandom() scripted:
    # failing calls (and a source that recovers), calls interrupted once
    c.tv(gen(c), 'sysrng', 'prngsys', max_cost=30.0)
    if c.tier == 'thorough':
        c.tv(gen(c), 'c32', 'prng', max_cost=30.0)
    c.cov['rule'] = 'random histories of 3..8 operations over {fetch, feed, reseed, save, load} with failing draws / storage results, plus threshold, status and NULL-state cases; distinct = cases'
