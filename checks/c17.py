"""C17: C++ classes compile when used and equal the C API for every keying path."""
from vlib import *
from gens import *
LEVEL = 'model_checking'
CLASSES = [('aead128', 16, 0), ('aead128a', 16, 0), ('aead80pq', 20, 0), ('siv128', 16, 0), ('siv128a', 16, 0), ('siv80pq', 20, 0),
           ('isap128', 16, 1), ('isap128a', 16, 1), ('isap80pq', 20, 1), ('aead128_masked', 16, 0), ('aead128a_masked', 16, 0), ('aead80pq_masked', 20, 0)]
XCLS = ['hash', 'hasha', 'xof', 'xofa', 'xof16', 'xof32', 'xof64', 'xofa16', 'xofa32', 'xofa64']

def enc(rng, o, slow=False):
    return 'cpp.enc obj=%d m=%s ad=%s form=%s noad=%d' % (o, hx(pattern(rng, rng.choice([0, 3, 9]))), hx(pattern(rng, rng.choice([0, 2]))), rng.choice(['ptr', 'ba']), rng.randrange(2))

def cipher_plan(c):
    rng = c.rng; th = c.tier == 'thorough'
    p = Plan()
    for cls, klen, isap in CLASSES:
        w = 3.0 if cls in ('isap128', 'isap80pq') else (0.8 if isap else 0.4)
        key = lambda: hx(pattern(rng, klen, 'rand'))
        paths = []
        # construction paths
        paths.append(['cpp.new cls=%s obj=1 how=default junk=%d' % (cls, rng.randrange(256))])
        paths.append(['cpp.new cls=%s obj=1 how=key key=%s junk=%d tape=rand' % (cls, key(), rng.randrange(256))])
        paths.append(['cpp.new cls=%s obj=1 how=keynull len=%d junk=%d' % (cls, 0 if isap else klen, rng.randrange(256))])
        # set_key paths: full length, zero length (NULL and non-NULL pointer), wrong lengths
        paths.append(['cpp.new cls=%s obj=1 how=default' % cls, 'cpp.set_key obj=1 key=%s tape=ones' % key()])
        paths.append(['cpp.new cls=%s obj=1 how=key key=%s' % (cls, key()), 'cpp.set_key obj=1 key=- len=0 keynull=1'])
        paths.append(['cpp.new cls=%s obj=1 how=key key=%s' % (cls, key()), 'cpp.set_key obj=1 key=%s len=0' % key()])
        for bad in [1, klen - 1, klen + 1, 33] + ([80] if not isap else [79, 81]):
            paths.append(['cpp.new cls=%s obj=1 how=key key=%s' % (cls, key()), enc(rng, 1), 'cpp.set_key obj=1 key=%s len=%d' % (hx(pattern(rng, 100, 'rand')), bad)])
        paths.append(['cpp.new cls=%s obj=1 how=key key=%s' % (cls, key()), 'cpp.set_key obj=1 key=- len=%d keynull=1' % klen])
        # clear
        paths.append(['cpp.new cls=%s obj=1 how=key key=%s' % (cls, key()), 'cpp.set_nonce obj=1 n=%s' % hx(pattern(rng, 16)), enc(rng, 1), 'cpp.clear obj=1'])
        if isap:
            # saved keys: constructor and set_key with an 80-byte saved key; save_key of every keying path
            paths.append(['cpp.new cls=%s obj=2 how=key key=%s' % (cls, key()), 'cpp.save_key obj=2 save=sk', 'cpp.new cls=%s obj=1 how=key key=@sk len=80' % cls, 'cpp.save_key obj=1', 'cpp.del obj=2'])
            paths.append(['cpp.new cls=%s obj=2 how=key key=%s' % (cls, key()), 'cpp.save_key obj=2 save=sk', 'cpp.new cls=%s obj=1 how=default' % cls, 'cpp.set_key obj=1 key=@sk len=80', 'cpp.save_key obj=1', 'cpp.del obj=2'])
            paths.append(['cpp.new cls=%s obj=1 how=key key=%s len=%d' % (cls, hx(pattern(rng, 40, 'rand')), 40), 'cpp.save_key obj=1'])   # other length: zero key
            paths.append(['cpp.new cls=%s obj=1 how=default' % cls, 'cpp.save_key obj=1'])
        if cls.endswith('_masked'):
            paths.append(['cpp.new cls=%s obj=1 how=key key=%s tape=rand' % (cls, key()), enc(rng, 1), 'cpp.randomize_key obj=1 tape=ones', enc(rng, 1), 'cpp.randomize_key obj=1 tape=zero'])
        for i, pre in enumerate(paths):
            n = pattern(rng, 16)
            lines = list(pre)
            if rng.random() < 0.6: lines.append('cpp.set_nonce obj=1 n=%s' % hx(n))
            lines += [enc(rng, 1), 'cpp.enc obj=1 m=%s ad=%s form=ptr save=ct' % (hx(pattern(rng, 11)), hx(b'hdr'))]
            # a second object keyed the same way through the C++ API decrypts it
            lines.append('cpp.del obj=1')
            p.case(lines, cost=w * (len(lines) - 1)); c.distinct([(cls, 'path', i)])
        # decrypt overloads incl. failed byte_array decrypt
        lines = ['cpp.new cls=%s obj=1 how=key key=%s' % (cls, key().replace('-', '00')), 'cpp.new cls=%s obj=2 how=default' % cls]
        k2 = pattern(rng, klen, 'rand')
        lines = ['cpp.new cls=%s obj=1 how=key key=%s' % (cls, hx(k2)), 'cpp.new cls=%s obj=2 how=default' % cls, 'cpp.set_key obj=2 key=%s' % hx(k2)]
        for form in ('ptr', 'ba'):
            ad = pattern(rng, rng.choice([0, 4]))
            lines += ['cpp.enc obj=1 m=%s ad=%s form=%s save=ct noad=1' % (hx(pattern(rng, 9)), hx(ad), form),
                      'cpp.dec obj=2 ct=@ct ad=%s form=%s flip=%d' % (hx(ad), form, rng.randrange(25)),
                      'cpp.dec obj=2 ct=@ct ad=%s form=%s noad=1' % (hx(ad), form)]
        lines += ['cpp.del obj=1', 'cpp.del obj=2']
        p.case(lines, cost=w * 8); c.distinct([(cls, 'dec')])
    # a short nonce after a full one on the same object (left-padded with zeros, not with what was there), and the
    # documented all-zero key of never-keyed objects for every class in one process, in both orders of the ISAP variants
    for cls, klen, _isap in CLASSES:
        p.case(['cpp.new cls=%s obj=1 how=key key=%s' % (cls, hx(pattern(rng, klen, 'rand'))), 'cpp.set_nonce obj=1 n=%s' % hx(bytes([0xee] * 16)), enc(rng, 1),
                'cpp.set_nonce obj=1 n=%s' % hx(pattern(rng, rng.choice([1, 7, 12, 15]), 'rand')), enc(rng, 1), 'cpp.set_counter obj=1 ctr=%d' % rng.getrandbits(64),
                'cpp.set_nonce obj=1 n=%s' % hx(pattern(rng, rng.choice([2, 8]), 'rand')), enc(rng, 1), 'cpp.del obj=1'], cost=3.0 if cls in ('isap128', 'isap80pq') else 0.6)
        c.distinct([(cls, 'short-after-full')])
    for order in (('isap128a', 'isap128', 'isap80pq'), ('isap128', 'isap128a')):
        lines = []
        for k, cls in enumerate(order):
            lines += ['cpp.new cls=%s obj=%d how=default' % (cls, k + 1), 'cpp.set_nonce obj=%d n=%s' % (k + 1, hx(pattern(rng, 16))), 'cpp.enc obj=%d m=%s ad=- form=ptr' % (k + 1, hx(pattern(rng, 5)))]
        lines += ['cpp.del obj=%d' % (k + 1) for k in range(len(order))]
        p.case(lines, cost=8.0); c.distinct([('zero-key-order', order)])
    return p

def cxx_plan(c):
    rng = c.rng; th = c.tier == 'thorough'
    p = Plan()
    text = lambda n: hx(bytes(rng.randrange(33, 127) for _ in range(n)))     # no NUL: usable as C string
    for cls in XCLS:
        ishash = cls in ('hash', 'hasha')
        for rep in range(6 if th else 3):
            lines = ['cxh.new cls=%s obj=1 how=default' % cls]
            for form in rng.sample(['ptr', 'cstr', 'string', 'ba', 'cstrnull'], 5):
                n = rng.choice([0, 1, 7, 8, 9, 20])
                # a std::string carries its length: bytes after an embedded NUL count (a C string stops there)
                withnul = lambda n: hx(bytes((0 if (i == n // 2 or rng.random() < 0.2) else rng.randrange(1, 256)) for i in range(n)))
                lines.append('cxh.absorb obj=1 in=%s form=%s null_if_empty=%d' % (text(n) if form == 'cstr' else (withnul(n) if form == 'string' else hx(pattern(rng, n))), form, rng.randrange(2)))
            lines.append('cxh.new cls=%s obj=2 how=copy src=1' % cls)
            lines.append('cxh.absorb obj=2 in=%s form=ptr' % hx(pattern(rng, 5)))
            lines.append('cxh.new cls=%s obj=3 how=default' % cls)
            lines.append('cxh.assign obj=3 src=2')
            lines.append('cxh.assign obj=3 src=3')          # self-assignment
            for o in (1, 2, 3):
                lines.append('cxh.squeeze obj=%d n=%d form=%s' % (o, rng.choice([0, 1, 8, 13, 32, 40]), rng.choice(['ptr', 'ba'])))
                if not ishash: lines.append('cxh.squeeze obj=%d n=%d form=%s' % (o, rng.choice([3, 8, 21]), rng.choice(['ptr', 'ba'])))
            if not ishash:
                lines += ['cxh.pad obj=1', 'cxh.absorb obj=1 in=%s form=string' % hx(bytes([65, 0, 66, 67])), 'cxh.pad obj=1', 'cxh.squeeze obj=1 n=9 form=ba']
            lines += ['cxh.reset obj=2', 'cxh.absorb obj=2 in=%s form=cstr' % text(11), 'cxh.squeeze obj=2 n=32 form=ptr']
            lines += ['cxh.del obj=1', 'cxh.del obj=2', 'cxh.del obj=3']
            p.case(lines, cost=3.0); c.distinct([(cls, 'members', rep)])
        if not ishash:
            for how in ('name', 'custom', 'custom_ba'):
                for nm in ([0, 4, 32, 33] if th else [4, 33]):
                    cu = rng.choice([0, 5, 8, 12])
                    lines = ['cxh.new cls=%s obj=1 how=%s name=%s custom=%s' % (cls, how, text(nm), hx(pattern(rng, cu)) if how != 'name' else '-'),
                             'cxh.absorb obj=1 in=%s form=ba' % hx(pattern(rng, 10)), 'cxh.squeeze obj=1 n=24 form=ba',
                             'cxh.reset obj=1', 'cxh.squeeze obj=1 n=8 form=ptr', 'cxh.del obj=1']
                    p.case(lines, cost=2.0); c.distinct([(cls, how, nm)])
        else:
            p.case(['cxh.digest cls=%s in=%s null_if_empty=%d' % (cls, hx(pattern(rng, n)), rng.randrange(2)) for n in (0, 1, 8, 31, 100)], cost=2.0)
    # byte-array helper functions
    lines = []
    for s in [b'', b'00', b'0a0B', b'01 02 03', b' 0 1\t2\n3 ', b'xyz', b'012', b'01g2', b'\t\n', b'DEADbeef', b'0 0 0 0 0 0 0 0', b'1', b'ff ff  ff']:
        for form in ('cstr', 'len', 'string'):
            lines.append('util.from_hex str=%s form=%s' % (hx(s), form))
    lines.append('util.from_hex str=- form=cstrnull')
    for _ in range(10):
        d = pattern(rng, rng.choice([0, 1, 5, 16, 33]))
        lines += ['util.to_hex in=%s form=%s upper=%d dflt=%d' % (hx(d), f, rng.randrange(2), rng.randrange(2)) for f in ('ptr', 'ba')]
        lines.append('util.from_data in=%s null_if_empty=%d' % (hx(d), rng.randrange(2)))
    p.case(lines, cost=3.0); c.distinct([('util', i) for i in range(len(lines))])
    return p

def run(c):
    c.mc_bg('MC_Sponge', disabled=('DoCopy', 'DoSqueeze2', 'ReAbsorb'))
    c.mc_bg('MC_Nonce', 'MC_Nonce3')
    c.assumptions += ['"compiles when used": harness/cxx/drv_cxxhash.cpp instantiates every documented member and overload of hash, hasha, xof, xofa, xof/xofa_with_output_length<16,32,64> and the helper functions; a compile error against /repo headers is a violation',
                      'the cipher classes are judged against the C functions as the specification computes them (key, nonce tracked by the spec)']
    # (1) a two-translation-unit program that names every documented member of the cipher classes through each class's
    #     own static type and includes every public C++ header twice: it must compile AND link against the library
    rcb, outb = sh([ROOT + '/tools/build.sh', 'rel+nodrv'], timeout=900)
    exe = BUILD + '/cxx/use_members'
    os.makedirs(BUILD + '/cxx', exist_ok=True)
    cmd2 = 'g++ -std=c++11 -Wall -DHAVE_CONFIG_H -I%s/src -I%s/lib/rel+nodrv %s/harness/cxx/use_members.cpp %s/harness/cxx/use_members2.cpp %s/lib/rel+nodrv/src/libascon_static.a -o %s' % (REPO, BUILD, ROOT, ROOT, BUILD, exe)
    rc2, out2 = sh(cmd2, timeout=300)
    c.cov['evaluations'] += 1; c.distinct([('compile', 'use_members')])
    if rc2 != 0:
        rd = c.replay_dir('compile_members')
        with open(rd + '/compile.log', 'w') as f: f.write(out2)
        with open(rd + '/replay.sh', 'w') as f: f.write('#!/bin/sh\n' + cmd2 + '\n')
        first = [l for l in out2.split('\n') if 'error' in l or 'multiple definition' in l or 'undefined reference' in l][:3]
        what = first[0] if first else 'members'
        c.violation('compile:' + re.sub(r'.*/(src|harness)/', '', what.split(': error')[0])[:80], 'C++ classes do not compile and link when used from two translation units: ' + ' | '.join(first), rd)
        return          # the conformance drivers include the same headers: nothing more can be built
    # (1b) every documented member of the header-only classes (its own driver program)
    drv, cmd, out = build_extra('cxx')
    if not drv:
        rd = c.replay_dir('compile_cxx')
        with open(rd + '/compile.log', 'w') as f: f.write(out)
        with open(rd + '/replay.sh', 'w') as f: f.write('#!/bin/sh\n' + cmd.replace('-o ' + BUILD + '/cxx/drv_cxx', '-fsyntax-only') + '\n')
        first = [l for l in out.split('\n') if 'error' in l][:3]
        c.violation('compile:' + (re.sub(r'.*/src/', '', first[0].split(': error')[0]) if first else 'cxx'), 'C++ members do not compile when used: ' + ' | '.join(first), rd)
        return
    c.tv(cxx_plan(c), 'rel', 'cxx', drv=drv, max_cost=20.0)
    # (2) cipher classes: every construction and keying path
    c.tv(cipher_plan(c), 'rel', 'cipher', max_cost=20.0)
    c.cov['rule'] = 'one case per (class, construction/keying path) followed by encryptions judged against the C-level specification; members of the header-only classes replayed as sponge objects; distinct = (class, path)'
