"""C16: the library is re-entrant: concurrent use of distinct objects is race-free."""
from vlib import *
from gens import *
import c01, c03, c04, c05, c06, c07, c14, c15, c10
import hashlib
LEVEL = 'exploration'

class Sub:
    def __init__(self, c): self.c = c; self.rng = c.rng; self.tier = 'quick'; self.cov = {}
    def distinct(self, items): pass

def worker_plan(c, ncases):
    """prologue (shared read-only objects) + the per-thread section"""
    sub = Sub(c); rng = c.rng
    P = Plan()
    def take(plan, k): P.cases.extend(plan.cases if len(plan.cases) <= k else rng.sample(plan.cases, k))
    take(c01.gen(sub), 10); take(c03.gen(sub), 12); take(c04.gen(sub), 10); take(c05.gen(sub), 8); take(c06.gen(sub), 12)
    q = Plan(); c07.walks(sub, q, 15); c07.sessions(sub, q, 8); take(q, 23)
    take(c14.gen(sub), 6); take(c15.gen(sub), 8)
    q = Plan(); c10.toolkit(sub, q, 4, False); take(q, 4)
    cases = P.cases if len(P.cases) <= ncases else rng.sample(P.cases, ncases)
    lines = ['reset']
    # shared constant objects: pre-computed ISAP keys, masked keys
    lines += ['isapkey.init scheme=isap128a obj=1000 k=%s' % hx(pattern(rng, 16, 'rand')), 'isapkey.init scheme=isap128 obj=1001 k=%s' % hx(pattern(rng, 16, 'rand')),
              'isapkey.init scheme=isap80pq obj=1002 k=%s' % hx(pattern(rng, 20, 'rand')),
              'mk.op name=init bits=128 obj=1003 key=%s tape=rand tapedata=0102030405060708' % hx(pattern(rng, 16, 'rand')),
              'mk.op name=init bits=160 obj=1004 key=%s tape=rand tapedata=1102030405060708' % hx(pattern(rng, 20, 'rand')),
              'threads.begin']
    for cs, cost, tag in cases:
        lines += cs
        # interleave uses of the shared objects
        n = hx(pattern(rng, 16, 'rand'))
        lines += ['isapkey.enc scheme=isap128a obj=1000 n=%s ad=%s in=%s save=sct' % (n, hx(pattern(rng, 3)), hx(pattern(rng, 11))),
                  'isapkey.dec scheme=isap128a obj=1000 n=%s ad=%s in=@sct' % (n, hx(b'x')),
                  'isapkey.save scheme=isap128a obj=1000',
                  'mk.aead scheme=aead128 obj=1003 n=%s ad=- m=%s tape=rand tapedata=%s' % (n, hx(pattern(rng, 9)), hx(pattern(rng, 8, 'rand'))),
                  'mk.aead scheme=aead80pq obj=1004 n=%s ad=%s m=%s tape=rand tapedata=%s' % (n, hx(b'ab'), hx(pattern(rng, 17)), hx(pattern(rng, 8, 'rand'))),
                  'mk.op name=extract bits=128 obj=1003']
    # every cipher once per thread with outputs whose last byte is the last accessible byte (tight=1): a store past the
    # documented size, even one that puts back what it read, would land in memory another thread may own
    for sc, klen in (('aead128', 16), ('aead128a', 16), ('aead80pq', 20), ('siv128', 16), ('siv128a', 16), ('siv80pq', 20), ('isap128a', 16), ('isap128', 16), ('isap80pq', 20)):
        for ml in (13, 3 if sc.startswith('isap') else 21):
            lines.append('aead.forge scheme=%s k=%s n=%s ad=%s m=%s fam=c muts=id;c:0:1 tape=rand tight=1' % (sc, hx(pattern(rng, klen, 'rand')), hx(pattern(rng, 16, 'rand')), hx(pattern(rng, rng.choice([0, 5]))), hx(pattern(rng, ml, 'rand'))))
    # keys, salts and passwords of every length class of the HMAC key block (the caller's buffers are read-only pages)
    for kl in (0, 16, 32, 33, 48, 64, 65, 100):
        k = hx(pattern(rng, kl, 'rand'))
        lines += ['os.hmac kind=%s key=%s in=%s' % (rng.choice(['hmac', 'hmaca']), k, hx(pattern(rng, 9))),
                  'os.hkdf kind=hkdf key=%s salt=%s info=- n=16' % (hx(pattern(rng, 16)), k),
                  'os.pbkdf2 kind=pbkdf2_hmac pw=%s salt=%s count=2 n=20' % (k, hx(pattern(rng, 8)))]
    if rng.random() < 1.0:
        lines += ['isapkey.enc scheme=isap128 obj=1001 n=%s ad=- in=0102' % hx(pattern(rng, 16)), 'isapkey.enc scheme=isap80pq obj=1002 n=%s ad=- in=03' % hx(pattern(rng, 16))]
    return lines

def threaded_run(c, flavour, lines, nthreads, repeat, name, env=None, drv=None):
    drv = drv or build(flavour)
    d = '%s/run/C16_%s_%s' % (BUILD, name, flavour.replace('+', '_'))
    shutil.rmtree(d, ignore_errors=True); os.makedirs(d)
    open(d + '/plan.txt', 'w').write('\n'.join(lines) + '\n')
    e = {'TSAN_OPTIONS': 'exitcode=97:halt_on_error=1:second_deadlock_stack=1', 'ASAN_OPTIONS': 'detect_leaks=0'}
    if env: e.update(env)
    try:
        rc, out = sh([drv, d + '/plan.txt', d + '/trace', str(nthreads), str(repeat)], timeout=1500, env=e)
    except subprocess.TimeoutExpired:
        raise Infra('threaded driver timeout (%s)' % flavour)
    open(d + '/drv.out', 'w').write('rc=%d\n%s' % (rc, out))
    if rc in (2, 4): raise Infra('driver harness error: ' + out[-500:])
    c.cov['evaluations'] += nthreads
    if flavour not in c.cov['flavours']: c.cov['flavours'].append(flavour)
    if rc != 0:
        rd = c.replay_dir('%s_%s' % (name, flavour.replace('+', '_')))
        for fn in ('plan.txt', 'drv.out'): shutil.copy(d + '/' + fn, rd + '/' + fn)
        open(rd + '/replay.sh', 'w').write('#!/bin/sh\n/verif/tools/build.sh %s && TSAN_OPTIONS=exitcode=97:halt_on_error=1 /verif/.build/drv/%s/drv %s/plan.txt /tmp/c16.trace %d %d\n' % (flavour, flavour, rd, nthreads, repeat))
        m = re.search(r'(WARNING: ThreadSanitizer: [^\n]*)(.*?)(Location is [^\n]*|SUMMARY[^\n]*)', out, re.S)
        what = (m.group(1) + ' ' + m.group(3)) if m else out[-300:]
        if rc == 3 and not m: what = 'the driver was killed by a signal: a store to memory the library may only read (a const input in read-only pages, a shared object while the threads run) an access past the last byte of an output buffer (outputs end at an inaccessible page), or a wild access'
        gl = re.search(r"global '([^']+)'", out)
        c.violation('race:' + (gl.group(1) if gl else flavour), 'multi-threaded run failed (rc=%d): %s' % (rc, what[:400]), rd)
        return
    verdicts = {}
    for t in list(range(nthreads)) + ['shared']:
        tr = '%s/trace.%s' % (d, ('t%d' % t) if t != 'shared' else 'shared')
        if t == 'shared' and not os.path.exists(tr): continue
        h = hashlib.sha256(open(tr, 'rb').read()).hexdigest()
        if h not in verdicts:
            wd = '%s/v%s' % (d, t); os.makedirs(wd, exist_ok=True)
            verdicts[h] = validate_trace(tr, wd, 'Trace')
        r = verdicts[h]
        if r['status'] == 'infra': raise Infra(r.get('detail'))
        if r['status'] != 'ok':
            rd = c.replay_dir('%s_%s_t%s' % (name, flavour.replace('+', '_'), t))
            shutil.copy(tr, rd + '/trace.ndjson'); shutil.copy(d + '/plan.txt', rd + '/plan.threads.txt')
            if os.path.exists(r['dir'] + '/tlc.out'): shutil.copy(r['dir'] + '/tlc.out', rd + '/tlc.out')
            open(rd + '/replay.sh', 'w').write('#!/bin/sh\ncd /verif/spec && TRACE=%s/trace.ndjson ../tools/tlc.sh -workers 1 -config Trace.cfg Trace.tla | tail -40\n' % rd)
            c.violation('thread-result:' + default_key(r), 'thread %s of %d computed a result that differs from the specification: %s %s' % (t, nthreads, r.get('detail'), (r.get('event') or '')[:300]), rd)
            return
        c.cov['traces_validated_against_impl'] += 1
    c.cov.setdefault('thread_runs', []).append({'flavour': flavour, 'threads': nthreads, 'repeat': repeat, 'distinct_trace_texts': len(verdicts), 'events_per_thread': verdicts[list(verdicts)[0]].get('events')})

def elf_scan(c, flavours):
    """the model's assumption 'no state outside the objects', bound to the built library: no writable
    (non-thread-local) data symbol in any object of libascon_static.a"""
    found = []
    for fl in flavours:
        build(fl)
        rc, out = sh(['nm', '-A', '%s/lib/%s/src/libascon_static.a' % (BUILD, fl)])
        syms = [l for l in out.split('\n') if re.search(r' [bBdDC] ', l)]
        found.append({'flavour': fl, 'writable': syms})
        c.cov['evaluations'] += 1
        if syms:
            rd = c.replay_dir('elf_' + fl)
            open(rd + '/symbols.txt', 'w').write('\n'.join(syms) + '\n')
            open(rd + '/replay.sh', 'w').write('#!/bin/sh\n/verif/tools/build.sh %s && nm -A /verif/.build/lib/%s/src/libascon_static.a | grep -E " [bBdDC] "\n' % (fl, fl))
            c.violation('global:' + syms[0].split()[-1], 'writable global data in the library (%s): %s' % (fl, '; '.join(s.split(':', 1)[-1] for s in syms[:4])), rd)
    c.cov['elf_scan'] = found

def header_statics(c):
    """the header-only part of the library (inline C++ members and helpers of src/ascon/*.h) is compiled into the
    USER's program: a writable static coming from there is hidden shared state just as much as one in the library.
    The program scanned is the driver that instantiates every documented member (harness/cxx/drv_cxxhash.cpp)."""
    drv, cmd, out = build_extra('cxx')
    if not drv: return None
    rc, o = sh('nm -C %s' % drv)
    # writable data (b/B/d/D), unique globals (u: statics of inline functions) and their guard variables;
    # type information and virtual tables of classes are read-only data that nm also lists as weak objects
    syms = [l for l in o.split('\n') if re.search(r' [bBdDu] ', l) and 'ascon::' in l and not re.search(r'typeinfo|vtable|VTT', l)]
    c.cov['evaluations'] += 1; c.cov['header_scan'] = syms
    if syms:
        rd = c.replay_dir('header_statics')
        open(rd + '/symbols.txt', 'w').write('\n'.join(syms) + '\n')
        open(rd + '/replay.sh', 'w').write('#!/bin/sh\n%s && nm -C %s | grep "ascon::" | grep -E " [bBdDuV] "\n' % (cmd, drv))
        c.violation('global:' + syms[0].split(None, 2)[-1][:60], 'writable static data instantiated from the library\'s headers in a user program: ' + '; '.join(x.split(None, 2)[-1] for x in syms[:4]), rd)
    return drv

def run(c):
    th = c.tier == 'thorough'
    c.mc_bg('SysThreads')
    c.mc_bg('SysThreads', 'SysThreadsNeg', must_fail=True)      # a static scratch buffer must be refuted
    c.assumptions += ['the model explores all interleavings of calls split into internal steps; the real library is exercised on the schedules the OS produces (8 threads, repeated), plus ThreadSanitizer, which generalises each observed execution to its happens-before relation',
                      'every thread runs the same workload on private objects and on shared read-only ISAP / masked keys; each thread trace (prefixed with the shared prologue) must be accepted by Trace.tla',
                      'the assumption "no mutable state outside the objects" is bound by scanning the built static library for writable data symbols']
    elf_scan(c, ['rel', 'c64', 'c32', 'dxor'])
    build_many(['rel', 'tsan', 'tsan+c64', 'ks3+ds2'] + (['tsan+c32', 'tsan+dxor', 'c32'] if th else []))
    lines = worker_plan(c, 60 if th else 30)
    c.distinct([('line', i) for i in range(len(lines))])
    threaded_run(c, 'rel', lines, 8, 20 if th else 6, 'mt')
    threaded_run(c, 'tsan', lines, 6, 3 if th else 1, 'mt')
    threaded_run(c, 'tsan+c64', lines, 6, 2 if th else 1, 'mt')
    # a share configuration with unused share slots in the key objects; the shared objects are read-only while the threads run
    threaded_run(c, 'ks3+ds2', lines, 6, 1, 'mt')
    if th:
        for fl in ('tsan+c32', 'tsan+dxor', 'c32'):
            threaded_run(c, fl, lines, 8, 3, 'mt')
    # the C++ header-only classes and helpers: static scan, then all members concurrently under ThreadSanitizer
    header_statics(c)
    import c17
    drvt, cmdt, outt = build_extra('cxx', 'tsan')
    if drvt:
        q = c17.cxx_plan(Sub(c)); cl = ['reset', 'threads.begin'] + [l for cs in q.cases[:16] for l in cs[0]]
        threaded_run(c, 'tsan', cl, 6, 1, 'cxxmt', drv=drvt)
    c.cov['samples'] = c.cov['samples'] or [l for l in lines[:8]]
    c.cov['rule'] = 'one workload of %d plan lines executed concurrently by 6-8 threads (x repeats) on release and ThreadSanitizer builds; distinct = plan lines' % len(lines)
