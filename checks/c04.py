"""C04: PRF, PrfShort, MAC (+verify), HMAC, KMAC."""
from vlib import *
from gens import *
LEVEL = 'model_checking'

def gen(c):
    rng = c.rng; th = c.tier == 'thorough'
    p = Plan()
    key16 = lambda: hx(pattern(rng, 16))
    # PrfShort: every (inlen, outlen) in 0..17 x 0..17
    for il in range(18):
        lines = []
        for ol in range(18):
            lines.append('os.prf kind=prf_short key=%s in=%s n=%d null_if_empty=%d' % (key16(), hx(pattern(rng, il)), ol, rng.randrange(2)))
            c.distinct([('short', il, ol)])
        p.case(lines, cost=1.0)
    # PrfShort with declared lengths of 2^s + n bytes for every s up to 63: all above 16, all refused untouched
    lines = []
    for sft in list(range(4, 64)):
        for n in (0, 1, 16):
            lines.append('os.prf_short_big key=%s sin=%d nin=%d sout=-1 nout=%d' % (key16(), sft, n, rng.choice([0, 8, 16])))
            lines.append('os.prf_short_big key=%s sin=-1 nin=%d sout=%d nout=%d' % (key16(), rng.choice([0, 8, 16]), sft, n))
        c.distinct([('short_big', sft)])
    lines += ['os.prf_short_big key=%s sin=-1 nin=%d sout=-1 nout=%d' % (key16(), a, b) for a, b in ((17, 16), (16, 17), (16, 16), (0, 0), (255, 1), (4096, 4096))]
    p.case(lines, cost=4.0)
    mlens = len_classes(32) + [rng.randrange(0, 300) for _ in range(10 if th else 3)] + ([1024, 4096] if th else [])
    outs = [0, 1, 15, 16, 17, 31, 32, 33, 64] + ([500] if th else [])
    for ml in mlens:
        for kind in ('prf', 'prf_fixed', 'mac'):
            n = rng.choice(outs)
            p.case(['os.prf kind=%s key=%s in=%s n=%d align=%d' % (kind, key16(), hx(pattern(rng, ml)), n, rng.randrange(8))], cost=0.2 + (ml + n) / 200.0)
            c.distinct([(kind, ml % 32, min(ml // 32, 3))])
    for n in outs:
        for kind in ('prf', 'prf_fixed'):
            p.case(['os.prf kind=%s key=%s in=%s n=%d' % (kind, key16(), hx(pattern(rng, rng.choice([0, 5, 32, 40]))), n)], cost=0.3)
            c.distinct([(kind, 'out', n)])
    # the incremental PRF / MAC / KMAC objects with the message and the output cut at arbitrary places
    # (an absorb that starts inside a rate block and runs over its end is where the code has a second path)
    for kind, rin, rout in (('prf', 32, 16), ('kmac', 8, 8), ('kmaca', 8, 8)):
        for rep in range(12 if th else 4):
            ml = rng.choice([rin + 13, 2 * rin + 5, 3 * rin, rng.randrange(1, 4 * rin)]); m = pattern(rng, ml, 'rand')
            init = 'sp.init kind=%s obj=1 key=%s' % (kind, key16())
            if kind != 'prf': init += ' custom=%s outlen=%d' % (hx(pattern(rng, rng.choice([0, 3]))), rng.choice([0, 32]))
            lines = [init]; pos = 0
            for ch in chunks(rng, ml, rin):
                lines.append('sp.absorb kind=%s obj=1 in=%s' % (kind, hx(m[pos:pos + ch]))); pos += ch
            for ch in chunks(rng, rng.choice([16, 32, 2 * rout + 3]), rout):
                lines.append('sp.squeeze kind=%s obj=1 n=%d' % (kind, ch))
            p.case(lines + ['sp.free kind=%s obj=1' % kind], cost=0.6 + ml / 60.0); c.distinct([(kind, 'chunked', rep)])
    # declared output lengths where the 32-bit bit count in the IV crosses each of its bytes (32, 8192, 2^21 bytes), the 2^29 clamp:
    # the IV is all that depends on the declared length, so a short squeeze decides it; one-shot 8192 in the thorough tier
    for L in [31, 33, 8191, 8192, 8193, 16384, 65536, (1 << 21) - 1, 1 << 21, (1 << 24) + 3, (1 << 28) - 1, 1 << 28, (1 << 28) + (1 << 27) + 5, (1 << 29) - 1, 1 << 29, (1 << 29) + 1] + ([1 << k for k in range(6, 28)] if th else []):
        for kind in ('prf', 'kmac', 'kmaca'):
            re = rng.randrange(2); k = pattern(rng, 16, 'rand')
            ini = lambda r: ('sp.init kind=%s obj=1 re=%d key=%s' % (kind, r, hx(k))) + (' variant=fixed outlen=%d' % L if kind == 'prf' else ' custom=%s outlen=%d' % (hx(pattern(rng, 2)), L))
            lines = [ini(0)]
            if re: lines += ['sp.absorb kind=%s obj=1 in=%s' % (kind, hx(pattern(rng, 5))), ini(1)]
            lines += ['sp.absorb kind=%s obj=1 in=%s' % (kind, hx(pattern(rng, rng.choice([0, 7, 33])))), 'sp.squeeze kind=%s obj=1 n=%d' % (kind, rng.choice([16, 24])), 'sp.free kind=%s obj=1' % kind]
            p.case(lines, cost=0.8); c.distinct([(kind, 'declared', L)])
    if th:
        p.case(['os.prf kind=prf_fixed key=%s in=%s n=8192' % (key16(), hx(pattern(rng, 9)))], cost=60.0); c.distinct([('prf_fixed', 'out', 8192)])
    # an object used, re-keyed in place (reinit) and used again equals a fresh one: PRF (both variants), KMAC, HMAC
    for kind in ('prf', 'kmac', 'kmaca', 'hmac', 'hmaca'):
        for rep in range(3 if th else 2):
            k1, k2 = pattern(rng, 16, 'rand'), pattern(rng, 16, 'rand'); m1, m2 = pattern(rng, rng.choice([5, 32, 40]), 'rand'), pattern(rng, rng.choice([0, 9, 33]), 'rand')
            ini = lambda k, re: ('sp.init kind=%s obj=1 re=%d key=%s' % (kind, re, hx(k))) + (' variant=%s outlen=%d' % (('plain', 0) if rep % 2 else ('fixed', 16)) if kind == 'prf' else (' custom=%s outlen=%d' % (hx(pattern(rng, 3)), 32 if rep % 2 else 0) if kind.startswith('kmac') else ''))
            fin = (lambda k: 'sp.hmacfinal kind=%s obj=1 key=%s' % (kind, hx(k))) if kind.startswith('hmac') else (lambda k: 'sp.squeeze kind=%s obj=1 n=16' % kind)
            p.case([ini(k1, 0), 'sp.absorb kind=%s obj=1 in=%s' % (kind, hx(m1)), fin(k1), ini(k2, 1), 'sp.absorb kind=%s obj=1 in=%s' % (kind, hx(m2)), fin(k2),
                    ini(k1, 1), fin(k1), 'sp.free kind=%s obj=1' % kind], cost=2.0)
            c.distinct([(kind, 'reused', rep)])
    # MAC verify: right tag, each of the 128 single-bit flips, random tags
    for rep in range(3 if th else 1):
        k = pattern(rng, 16); m = pattern(rng, rng.choice([0, 7, 33]))
        p.case(['sp.init kind=prf obj=1 variant=fixed outlen=16 key=%s' % hx(k), 'sp.absorb kind=prf obj=1 in=%s' % hx(m),
                'sp.squeeze kind=prf obj=1 n=16 save=tag', 'sp.free kind=prf obj=1',
                'os.mac_verify key=%s in=%s tag=@tag' % (hx(k), hx(m))] +
               ['os.mac_verify key=%s in=%s tag=@tag flip=%d' % (hx(k), hx(m), b) for b in range(128)] +
               ['os.mac_verify key=%s in=%s tag=%s' % (hx(k), hx(m), hx(pattern(rng, 16, 'rand'))) for _ in range(16)], cost=8.0)
        # wrong in two, three or four bytes with equal or complementary differences (a comparison that folds words or
        # byte lanes with XOR lets them cancel): every pair of positions with one mask, triples and quads sampled
        def xm(pos_mask):
            b = bytearray(16)
            for i, v in pos_mask: b[i] ^= v
            return hx(bytes(b))
        pairs = [(i, j) for i in range(16) for j in range(i + 1, 16)]
        lines2 = ['os.mac_verify key=%s in=%s tag=@tag xor=%s' % (hx(k), hx(m), xm([(i, v), (j, v)])) for (i, j) in pairs for v in [rng.choice([1, 0x80, 0x5a, 0xff])]]
        for _ in range(20):
            pos = rng.sample(range(16), rng.choice([3, 4])); v = rng.randrange(1, 256)
            masks = [v] * len(pos) if len(pos) == 4 else [v, rng.randrange(1, 256), 0]
            if len(pos) == 3: masks[2] = masks[0] ^ masks[1] or 1
            lines2.append('os.mac_verify key=%s in=%s tag=@tag xor=%s' % (hx(k), hx(m), xm(list(zip(pos, masks)))))
        p.case(['sp.init kind=prf obj=1 variant=fixed outlen=16 key=%s' % hx(k), 'sp.absorb kind=prf obj=1 in=%s' % hx(m), 'sp.squeeze kind=prf obj=1 n=16 save=tag', 'sp.free kind=prf obj=1'] + lines2, cost=8.0)
        c.distinct([('macv2', rep, i, j) for (i, j) in pairs])
        c.distinct([('macv', rep, b) for b in range(128)])
    # HMAC / KMAC: key lengths around the block size and far above
    klens = [0, 1, 31, 32, 33, 47, 63, 64, 65, 100, 300] if th else [0, 1, 32, 33, 50, 63, 64, 65, 100]
    for kind in ('hmac', 'hmaca'):
        for kl in klens:
            ml = rng.choice(len_classes(8))
            p.case(['os.hmac kind=%s key=%s in=%s null_if_empty=%d' % (kind, hx(pattern(rng, kl)), hx(pattern(rng, ml)), rng.randrange(2))], cost=1.0 + kl / 60.0)
            c.distinct([(kind, kl)])
            # incremental form with the same key
            k = pattern(rng, kl); m = pattern(rng, ml)
            p.case(['sp.init kind=%s obj=1 key=%s' % (kind, hx(k)), 'sp.absorb kind=%s obj=1 in=%s' % (kind, hx(m[:3])), 'sp.absorb kind=%s obj=1 in=%s' % (kind, hx(m[3:])),
                    'sp.hmacfinal kind=%s obj=1 key=%s' % (kind, hx(k)), 'sp.free kind=%s obj=1' % kind], cost=1.5 + kl / 60.0)
    for kind in ('kmac', 'kmaca'):
        for kl in klens:
            for n in ([32, 33, 16, 0, 64] if th else [32, rng.choice([0, 16, 31, 33, 64])]):
                cu = rng.choice([0, 0, 3, 8, 9, 20]); ml = rng.choice(len_classes(8))
                p.case(['os.kmac kind=%s key=%s in=%s custom=%s n=%d null_if_empty=%d' % (kind, hx(pattern(rng, kl)), hx(pattern(rng, ml)), hx(pattern(rng, cu)), n, rng.randrange(2))],
                       cost=0.8 + kl / 80.0)
                c.distinct([(kind, kl, n == 32, cu > 0)])
    return p

def run(c):
    c.mc_bg('MC_Sponge', disabled=('DoCopy', 'DoSqueeze2', 'ReAbsorb'))
    c.assumptions += ['key/message VALUES sampled; PrfShort (inlen,outlen) grid 0..17 x 0..17 exhaustive; every single-bit wrong tag for mac_verify',
                      'a wrong 16-byte tag equal to the right one has probability 2^-128 (random tags)']
    p = gen(c)
    c.tv(p, 'rel', 'mac', max_cost=20.0)
    if c.tier != 'thorough':
        c.tv_sample(p, 'mac', ('c32', 'c64', 'dxor'), k=45, max_cost=15.0, pred=lambda cs: cs[1] < 4 and 'short_big' not in cs[0][1])        # per-back-end precomputed states
    if c.tier == 'thorough':
        for fl in ('c32', 'dxor'):
            c.tv(p, fl, 'mac', max_cost=20.0)
    c.cov['rule'] = 'case per (function, length class of key/message/output); distinct = those tuples'
