------------------------------ MODULE Conc ------------------------------
(* The concrete instance of the algebra: bytes are integers 0..255 and the *)
(* permutation is the real one of AsconPerm.tla.  A root module EXTENDS    *)
(* this and binds, in its .cfg:                                            *)
(*   PermOp <- CPermOp  BX <- CBX  BC <- CBC  BBit <- CBBit  BBase <- CBBase  BHas <- CBHas *)
EXTENDS AsconPerm

CPermOp(S, first) == [base |-> <<>>, d |-> Permute(S.d, first), z |-> {}]
CBX(a, b)   == a ^^ b
CBC(x)      == x
CBBit(b, j) == IF (b \div (2 ^ j)) % 2 = 1 THEN 128 ELSE 0
CBBase(base, i) == 0       \* never reached: every concrete state has base = <<>>
CBHas(b, base, i) == FALSE
=========================================================================
