--------------------------- MODULE AsconWord ---------------------------
(* L0a: 64-bit words as 4 limbs of 16 bits, most significant limb first.   *)
(* TLC integers are 32-bit, so no value here ever exceeds 2^16 * 2^15.     *)
(* All operators build explicit tuples: TLC evaluates function             *)
(* constructors lazily and re-evaluates them at every application.         *)
EXTENDS Naturals, Sequences, Bitwise

M16 == 65535

WZero == <<0, 0, 0, 0>>

WXor(a, b) == << a[1] ^^ b[1], a[2] ^^ b[2], a[3] ^^ b[3], a[4] ^^ b[4] >>
WAnd(a, b) == << a[1] & b[1], a[2] & b[2], a[3] & b[3], a[4] & b[4] >>
WNot(a)    == << M16 - a[1], M16 - a[2], M16 - a[3], M16 - a[4] >>

\* rotate right by q whole limbs (q in 0..3)
LimbRotR(w, q) ==
  CASE q = 0 -> w
    [] q = 1 -> << w[4], w[1], w[2], w[3] >>
    [] q = 2 -> << w[3], w[4], w[1], w[2] >>
    [] q = 3 -> << w[2], w[3], w[4], w[1] >>

\* rotate right by n bits, n in 0..63
WRotR(w, n) ==
  LET a == LimbRotR(w, n \div 16)
      r == n % 16
  IN IF r = 0 THEN a
     ELSE LET p == 2 ^ r
              h == 65536 \div p
          IN << (a[1] \div p) + (a[4] % p) * h,
                (a[2] \div p) + (a[1] % p) * h,
                (a[3] \div p) + (a[2] % p) * h,
                (a[4] \div p) + (a[3] % p) * h >>

\* 8 bytes (big-endian) <-> word
WFromBytes(b, o) ==   \* bytes o+1 .. o+8 of sequence b
  << b[o+1] * 256 + b[o+2], b[o+3] * 256 + b[o+4],
     b[o+5] * 256 + b[o+6], b[o+7] * 256 + b[o+8] >>

WToBytes(w) ==
  << w[1] \div 256, w[1] % 256, w[2] \div 256, w[2] % 256,
     w[3] \div 256, w[3] % 256, w[4] \div 256, w[4] % 256 >>
=========================================================================
