------------------------------ MODULE MC_Masking ------------------------------
(* Design-level algebra of the masking scheme on W-bit words with rotation  *)
(* offsets 1, 2, 3 in place of 11, 22, 33, for ALL share values and ALL     *)
(* random values: load/store, refresh, XOR, replace, conversions between    *)
(* share counts and the 2-share AND-NOT-XOR gadget of the masked S-box      *)
(* (src/masking/ascon-x2-c64.c) preserve the represented value; a refresh   *)
(* with generic randomness changes every share.                             *)
EXTENDS Naturals, Sequences, Bitwise, TLC
CONSTANTS W
Top == 2^W - 1
Vals == 0..Top
RotR(x, r) == ((x \div (2^(r % W))) + (x * 2^(W - (r % W)))) % (2^W)
RotL(x, r) == RotR(x, W - (r % W))
Inv4(x) == Top - x
\* share i (1-based) is stored rotated right by (i - 1)
Unmask(s) == IF Len(s) = 2 THEN s[1] ^^ RotL(s[2], 1)
             ELSE IF Len(s) = 3 THEN (s[1] ^^ RotL(s[2], 1)) ^^ RotL(s[3], 2)
             ELSE ((s[1] ^^ RotL(s[2], 1)) ^^ RotL(s[3], 2)) ^^ RotL(s[4], 3)
Load2(d, r)          == <<r ^^ d, RotR(r, 1)>>
Load3(d, r1, r2)     == <<(r1 ^^ r2) ^^ d, RotR(r1, 1), RotR(r2, 2)>>
Load4(d, r1, r2, r3) == <<((r1 ^^ r2) ^^ r3) ^^ d, RotR(r1, 1), RotR(r2, 2), RotR(r3, 3)>>
Refresh2(s, r)       == <<s[1] ^^ r, s[2] ^^ RotR(r, 1)>>
Refresh3(s, r1, r2)  == <<(s[1] ^^ r1) ^^ r2, s[2] ^^ RotR(r1, 1), s[3] ^^ RotR(r2, 2)>>
X2FromX3(s, r)       == <<r ^^ s[1], (RotR(r, 1) ^^ s[2]) ^^ RotL(s[3], 1)>>        \* share 3 folded into share 2
X3FromX2(s, r1, r2)  == <<(s[1] ^^ r1) ^^ r2, s[2] ^^ RotR(r1, 1), RotR(r2, 2)>>
Xor2(a, b)           == <<a[1] ^^ b[1], a[2] ^^ b[2]>>
\* replace the top k bits of dst by those of src, share by share with rotated masks
Mask(k) == Top - (2^(W - k) - 1)
Replace2(d, s, k) == <<(d[1] & Inv4(Mask(k))) | (s[1] & Mask(k)),
                       (d[2] & RotR(Inv4(Mask(k)), 1)) | (s[2] & RotR(Mask(k), 1))>>
\* x ^= (~y & z) on two shares (and_not_xor of ascon-x2-c64.c)
AndNotXor2(x, y, z) ==
  LET xa1 == x[1] ^^ (Inv4(y[1]) & RotL(z[2], 1))
      xa2 == xa1 ^^ (Inv4(y[1]) & z[1])
      xb1 == x[2] ^^ (y[2] & z[2])
      xb2 == xb1 ^^ (y[2] & RotR(z[1], 1))
  IN <<xa2, xb2>>

VARIABLES kind, ok
vars == <<kind, ok>>
Init ==
  \/ /\ kind = "load2" /\ ok = \A d \in Vals, r \in Vals : Unmask(Load2(d, r)) = d
  \/ /\ kind = "load3" /\ ok = \A d \in Vals, r1 \in Vals, r2 \in Vals : Unmask(Load3(d, r1, r2)) = d
  \/ /\ kind = "load4" /\ ok = \A d \in Vals, r1 \in Vals, r2 \in Vals, r3 \in Vals : Unmask(Load4(d, r1, r2, r3)) = d
  \/ /\ kind = "refresh2" /\ ok = \A a \in Vals, b \in Vals, r \in Vals :
          LET s == <<a, b>>  t == Refresh2(s, r) IN Unmask(t) = Unmask(s) /\ (r # 0 => t[1] # s[1] /\ t[2] # s[2])
  \/ /\ kind = "refresh3" /\ ok = \A a \in Vals, b \in Vals, c \in Vals, r1 \in Vals, r2 \in Vals :
          LET s == <<a, b, c>>  t == Refresh3(s, r1, r2) IN
          Unmask(t) = Unmask(s) /\ ((r1 # 0 /\ r2 # 0 /\ r1 # r2) => t[1] # s[1] /\ t[2] # s[2] /\ t[3] # s[3])
  \/ /\ kind = "convert" /\ ok = \A a \in Vals, b \in Vals, c \in Vals, r1 \in Vals, r2 \in Vals :
          Unmask(X2FromX3(<<a, b, c>>, r1)) = Unmask(<<a, b, c>>) /\ Unmask(X3FromX2(<<a, b>>, r1, r2)) = Unmask(<<a, b>>)
  \/ /\ kind = "xor" /\ ok = \A a \in Vals, b \in Vals, c \in Vals, d \in Vals :
          Unmask(Xor2(<<a, b>>, <<c, d>>)) = Unmask(<<a, b>>) ^^ Unmask(<<c, d>>)
  \/ /\ kind = "replace" /\ ok = \A a \in Vals, b \in Vals, c \in Vals, d \in Vals, k \in 0..W :
          Unmask(Replace2(<<a, b>>, <<c, d>>, k)) = (Unmask(<<a, b>>) & Inv4(Mask(k))) | (Unmask(<<c, d>>) & Mask(k))
  \/ /\ kind = "andnot" /\ ok = \A xa \in {0, 5, Top}, xb \in {0, 10}, ya \in Vals, yb \in Vals, za \in Vals, zb \in Vals :
          Unmask(AndNotXor2(<<xa, xb>>, <<ya, yb>>, <<za, zb>>)) =
             Unmask(<<xa, xb>>) ^^ (Inv4(Unmask(<<ya, yb>>)) & Unmask(<<za, zb>>))
Next == UNCHANGED vars
Spec == Init /\ [][Next]_vars
Inv == ok
=========================================================================
