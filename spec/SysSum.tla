------------------------------- MODULE SysSum -------------------------------
(* L3 (C19): asconsum as a process.  Hash mode: for every named file open,  *)
(* read to the end, print "digest  name".  Check mode: read the checksum    *)
(* list line by line (fgets on a buffered stream: a line becomes visible    *)
(* only after the read() that fetched it succeeded), and for every well     *)
(* formed line open and hash the named file and print OK / FAILED.  The     *)
(* control structure follows apps/asconsum/asconsum.c (hash_file,           *)
(* check_file, the counters format_errors / mismatch_errors / read_errors,  *)
(* found, exit_val).  Hashing itself is abstract: a file is authentic or    *)
(* modified.  The environment may fail one read (of a data file or of the   *)
(* list) or one write to standard output.                                   *)
(*                                                                          *)
(* Claim: exit status 0 only if every requested digest / verdict reached    *)
(* standard output, every listed file was looked at and found unmodified,   *)
(* and no line was malformed.                                               *)
(* ListConvention = "ferror" and OutConvention = "flush" are the repaired   *)
(* tool; "eof" (a failed read of the list ends the loop like end of file)   *)
(* and "ignore" (standard output is never looked at) are the shipped        *)
(* conventions, kept as negative instances that TLC must refute.            *)
EXTENDS Integers, Sequences, TLC

CONSTANTS MaxLines, ListConvention, OutConvention

LineKinds == {"good", "modified", "missing", "malformed"}
Ops == {"readlist", "readfile", "write"}
NoFault == [op |-> "none", k |-> 0]
Faults == {NoFault} \cup [op : Ops, k : 1..(MaxLines + 1)]

VARIABLES mode, lines, fault, pc, i, calls, tripped, exitv, printed, found, fmtErr, misErr, rdErr, outErr, stderr
vars == <<mode, lines, fault, pc, i, calls, tripped, exitv, printed, found, fmtErr, misErr, rdErr, outErr, stderr>>

Init == /\ mode \in {"hash", "check"}
        /\ lines \in UNION {[1..n -> (IF mode = "hash" THEN {"good", "missing"} ELSE LineKinds)] : n \in 0..MaxLines}
        /\ fault \in Faults
        /\ pc = "next" /\ i = 1 /\ calls = [o \in Ops |-> 0] /\ tripped = FALSE
        /\ exitv = 0 /\ printed = 0 /\ found = FALSE /\ fmtErr = 0 /\ misErr = 0 /\ rdErr = 0 /\ outErr = FALSE /\ stderr = FALSE

\* the k-th call of kind op fails iff the fault names it
Sys(op) == LET n == calls[op] + 1 IN [fail |-> fault.op = op /\ fault.k = n, calls |-> [calls EXCEPT ![op] = n]]

\* ---- hash mode: one step per named file
HashOne == /\ mode = "hash" /\ pc = "next" /\ i <= Len(lines)
           /\ IF lines[i] = "missing"
              THEN /\ exitv' = 1 /\ stderr' = TRUE /\ UNCHANGED <<printed, outErr, tripped, calls>>       \* fopen fails: perror
              ELSE LET r == Sys("readfile") IN
                   IF r.fail THEN /\ exitv' = 1 /\ stderr' = TRUE /\ tripped' = TRUE /\ calls' = r.calls /\ UNCHANGED <<printed, outErr>>
                   ELSE \* Print with the read counted
                        LET w == [fail |-> fault.op = "write" /\ fault.k = calls["write"] + 1] IN
                        /\ printed' = IF w.fail THEN printed ELSE printed + 1
                        /\ outErr' = (outErr \/ w.fail) /\ tripped' = (tripped \/ w.fail)
                        /\ calls' = [r.calls EXCEPT !["write"] = @ + 1]
                        /\ UNCHANGED <<exitv, stderr>>
           /\ i' = i + 1
           /\ UNCHANGED <<mode, lines, fault, pc, found, fmtErr, misErr, rdErr>>

\* ---- check mode: fgets, then the line
CheckLine == /\ mode = "check" /\ pc = "next" /\ i <= Len(lines)
             /\ LET g == Sys("readlist") IN
                IF g.fail
                THEN \* fgets returns NULL: the loop ends; whether that is told apart from end of file is the convention
                     /\ pc' = "report" /\ tripped' = TRUE /\ calls' = g.calls
                     /\ IF ListConvention = "ferror" THEN exitv' = 1 /\ stderr' = TRUE ELSE UNCHANGED <<exitv, stderr>>
                     /\ UNCHANGED <<i, printed, outErr, found, fmtErr, misErr, rdErr>>
                ELSE IF lines[i] = "malformed"
                THEN /\ fmtErr' = fmtErr + 1 /\ i' = i + 1 /\ calls' = g.calls
                     /\ UNCHANGED <<pc, tripped, exitv, stderr, printed, outErr, found, misErr, rdErr>>
                ELSE LET fileFails == lines[i] = "missing" \/ (fault.op = "readfile" /\ fault.k = g.calls["readfile"] + 1)
                         c1 == IF lines[i] = "missing" THEN g.calls ELSE [g.calls EXCEPT !["readfile"] = @ + 1]
                         w == fault.op = "write" /\ fault.k = c1["write"] + 1
                     IN /\ found' = TRUE /\ i' = i + 1
                        /\ calls' = [c1 EXCEPT !["write"] = @ + 1]
                        /\ printed' = IF w THEN printed ELSE printed + 1          \* "name: OK" / "FAILED" / "FAILED open or read"
                        /\ outErr' = (outErr \/ w)
                        /\ tripped' = (tripped \/ w \/ (lines[i] # "missing" /\ fileFails))
                        /\ rdErr' = IF fileFails THEN rdErr + 1 ELSE rdErr
                        /\ misErr' = IF ~fileFails /\ lines[i] = "modified" THEN misErr + 1 ELSE misErr
                        /\ UNCHANGED <<pc, exitv, stderr, fmtErr>>
             /\ UNCHANGED <<mode, lines, fault>>

EndOfInput == /\ pc = "next" /\ i > Len(lines) /\ pc' = "report"
              /\ UNCHANGED <<mode, lines, fault, i, calls, tripped, exitv, printed, found, fmtErr, misErr, rdErr, outErr, stderr>>

\* "Report overall results" and, in the repaired tool, the final look at standard output
Report == /\ pc = "report" /\ pc' = "done"
          /\ LET bad == mode = "check" /\ (~found \/ fmtErr # 0 \/ misErr # 0 \/ rdErr # 0)
                 lost == OutConvention = "flush" /\ outErr IN
             /\ exitv' = IF bad \/ lost THEN 1 ELSE exitv
             /\ stderr' = (stderr \/ bad \/ lost)
          /\ UNCHANGED <<mode, lines, fault, i, calls, tripped, printed, found, fmtErr, misErr, rdErr, outErr>>

Next == HashOne \/ CheckLine \/ EndOfInput \/ Report
Spec == Init /\ [][Next]_vars

-----------------------------------------------------------------------------
Done == pc = "done"
AllGood == \A j \in 1..Len(lines) : lines[j] = "good"
\* success means what it says
ExitZeroIsComplete == (Done /\ exitv = 0) => (~tripped /\ AllGood /\ printed = Len(lines) /\ (mode = "check" => Len(lines) > 0))
\* and failure is loud
Loud == (Done /\ exitv # 0) => stderr
\* without faults and with good input the tool succeeds (the check is not vacuous)
Works == (Done /\ fault = NoFault /\ AllGood /\ (mode = "check" => Len(lines) > 0)) => (exitv = 0 /\ printed = Len(lines))
Inv == ExitZeroIsComplete /\ Loud /\ Works
=========================================================================
