SPECIFICATION Spec
INVARIANT Inv
CHECK_DEADLOCK FALSE
CONSTANTS
  MaxOps = 4
  CapUnit = 2
  FixedResize = FALSE
  FixedCmp = TRUE
