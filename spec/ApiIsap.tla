------------------------------ MODULE ApiIsap ------------------------------
(* ISAP-A v2.0 (Dobraunig et al., NIST LWC final-round specification,      *)
(* algorithms 1-4) over the ASCON permutation, plus the library's          *)
(* pre-computed key object.  ISAP-A-80PQ is the same scheme with a 160-bit *)
(* key, as the library documents.                                          *)
(*                                                                         *)
(*  IsapRk(K, f, Y, z): S = p^sK(K || IV_f); absorb Y one BIT at a time    *)
(*      (bit XORed into the first state bit, p^sB between bits, p^sK       *)
(*      after the last); output the first z bits.                          *)
(*  IsapEnc: S = IsapRk(K, enc, N, 320-128) || N; keystream blocks         *)
(*      C_i = (p^sE(S))[0..64) xor M_i.                                    *)
(*  IsapMac: S = p^sH(N || IV_A); absorb padded A; flip last bit; absorb   *)
(*      padded C; Y = first k bits; S = IsapRk(K, mac, Y, k) || rest of S; *)
(*      T = first 128 bits of p^sH(S).                                     *)
EXTENDS AsconModes

\* The bit-by-bit absorption of IsapRk is an operator parameter: the concrete instance binds it
\* to IsapRekeyBits below (the real thing, 1 permutation per bit); symbolic models bind it to a
\* free function of (pre-computed key state, absorbed string), because 128 nested permutation
\* terms per re-keying are beyond what TLC can compare.
CONSTANT RekeyOp(_, _, _)

IsapPar(v) ==
  CASE v = "128a" -> [klen |-> 16, sH |-> 12, sB |-> 1,  sE |-> 6,  sK |-> 12]
    [] v = "128"  -> [klen |-> 16, sH |-> 12, sB |-> 12, sE |-> 12, sK |-> 12]
    [] v = "80pq" -> [klen |-> 20, sH |-> 12, sB |-> 12, sE |-> 12, sK |-> 12]

\* IV_f = f || k || r_H || r_B || sH || sB || sE || sK  (f: 1 = A, 2 = KA, 3 = KE), zero filled
IsapIV(par, f) == Bytes(<<f, par.klen * 8, 64, 1, par.sH, par.sB, par.sE, par.sK>>)

\* the pre-computed part of IsapRk: p^sK(K || IV_f || 0*)
IsapKeyState(par, K, f) == P(Ovw(State0, 0, K \o IsapIV(par, f)), 12 - par.sK)
IsapKeyExpand(v, K) == [ke |-> IsapKeyState(IsapPar(v), K, 3), ka |-> IsapKeyState(IsapPar(v), K, 2)]

IsapRekey(par, S0, Y) == RekeyOp(par, S0, Y)

\* bit-wise absorption of Y (a byte string) starting from the pre-computed state
IsapRekeyBits(par, S0, Y) ==
  LET nbits == Len(Y) * 8 IN
  FoldLeft(LAMBDA acc, i :     \* i = 1..nbits; bit (i-1) of Y, most significant bit of each byte first
             LET byte == Y[((i - 1) \div 8) + 1]
                 j    == 7 - ((i - 1) % 8)
                 s1   == XorIn(acc, 0, <<BBit(byte, j)>>)
             IN P(s1, IF i = nbits THEN 12 - par.sK ELSE 12 - par.sB),
           S0, Idx(nbits))

IsapStream(par, pk, N, n) ==
  LET S0 == Ovw(IsapRekey(par, pk.ke, N), 24, N)
      nb == (n + 7) \div 8
      r  == FoldLeft(LAMBDA acc, i :
                       LET s == P(acc.s, 12 - par.sE)
                       IN [s |-> s, out |-> acc.out \o Ext(s, 0, Min2(8, n - (i - 1) * 8))],
                     [s |-> S0, out |-> <<>>], Idx(nb))
  IN r.out

IsapMac(par, pk, N, A, C) ==
  LET fH == 12 - par.sH
      S0 == P(Ovw(State0, 0, N \o IsapIV(par, 1)), fH)
      S1 == Sep(P(AbsorbPadded(S0, A, 8, fH), fH))
      S2 == P(AbsorbPadded(S1, C, 8, fH), fH)
      Y  == Ext(S2, 0, par.klen)
      S3 == Ovw(IsapRekey(par, pk.ka, Y), par.klen, Ext(S2, par.klen, 40 - par.klen))
  IN Ext(P(S3, fH), 0, 16)

\* with a pre-computed key object pk = [ke, ka]
IsapEncPk(v, pk, N, A, M) ==
  LET par == IsapPar(v)
      C   == XorSeq(M, IsapStream(par, pk, N, Len(M)))
  IN C \o IsapMac(par, pk, N, A, C)
IsapDecPk(v, pk, N, A, CT) ==
  LET par == IsapPar(v)
      n   == Len(CT) - 16
      C   == Slice(CT, 0, n)
  IN [ok |-> IsapMac(par, pk, N, A, C) = Slice(CT, n, 16),
      m  |-> XorSeq(C, IsapStream(par, pk, N, n))]

IsapEnc(v, K, N, A, M)  == IsapEncPk(v, IsapKeyExpand(v, K), N, A, M)
IsapDec(v, K, N, A, CT) == IsapDecPk(v, IsapKeyExpand(v, K), N, A, CT)

\* saved form of a pre-computed key: the two 40-byte states in canonical byte order
IsapSave(pk)     == Ext(pk.ke, 0, 40) \o Ext(pk.ka, 0, 40)
IsapLoad(saved)  == [ke |-> Ovw(State0, 0, Slice(saved, 0, 40)), ka |-> Ovw(State0, 0, Slice(saved, 40, 40))]
=========================================================================
