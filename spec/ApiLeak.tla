------------------------------- MODULE ApiLeak -------------------------------
(* C11: what a keyed call is ALLOWED to reveal through its control flow and *)
(* memory addresses: a function of public values only.  The part of that    *)
(* leakage the harness observes directly is the sequence of permutation     *)
(* calls (their first_round arguments).  The operators below predict that   *)
(* sequence from public lengths alone; MC_Leak checks the predictions       *)
(* against the term structure of the L1 operators (and that two different   *)
(* secrets give the same sequence); the trace spec requires every recorded  *)
(* call to show exactly the predicted sequence and no secret-dependent      *)
(* branch or address (memcheck taint errors = 0).                           *)
EXTENDS Naturals, Sequences

RepS(x, n) == [i \in 1..n |-> x]
AeadRounds(rate, b, adlen, mlen) ==
  <<0>> \o (IF adlen > 0 THEN RepS(b, adlen \div rate + 1) ELSE <<>>) \o RepS(b, mlen \div rate) \o <<0>>
\* SIV pass 1 (authentication) and pass 2 (keystream)
SivAuth(rate, b, adlen, mlen) ==
  <<0>> \o (IF adlen > 0 THEN RepS(b, adlen \div rate + 1) ELSE <<>>) \o RepS(b, mlen \div rate) \o <<0>>
SivStreamRounds(rate, b, mlen) == <<0>> \o RepS(b, (mlen + rate - 1) \div rate)
SivEncRounds(rate, b, adlen, mlen) == SivAuth(rate, b, adlen, mlen) \o SivStreamRounds(rate, b, mlen)
SivDecRounds(rate, b, adlen, mlen) == SivStreamRounds(rate, b, mlen) \o SivAuth(rate, b, adlen, mlen)
\* PRF family: initialisation, one permutation per full 32-byte block, one per 16 output bytes
PrfRounds(mlen, outlen) == <<0>> \o RepS(0, mlen \div 32) \o RepS(0, (outlen + 15) \div 16)

Scheme(fn) ==
  CASE fn \in {"aead128.enc", "aead128.dec"} -> [fam |-> "aead", rate |-> 8, b |-> 6]
    [] fn \in {"aead128a.enc", "aead128a.dec"} -> [fam |-> "aead", rate |-> 16, b |-> 4]
    [] fn \in {"aead80pq.enc", "aead80pq.dec"} -> [fam |-> "aead", rate |-> 8, b |-> 6]
    [] fn \in {"siv128.enc", "siv128.dec"} -> [fam |-> "siv", rate |-> 8, b |-> 6]
    [] fn \in {"siv128a.enc", "siv128a.dec"} -> [fam |-> "siv", rate |-> 16, b |-> 4]
    [] fn \in {"siv80pq.enc", "siv80pq.dec"} -> [fam |-> "siv", rate |-> 8, b |-> 6]
    [] fn \in {"prf", "mac", "mac_verify"} -> [fam |-> "prf", rate |-> 32, b |-> 0]
    [] OTHER -> [fam |-> "none", rate |-> 0, b |-> 0]
IsDec(fn) == Len(fn) > 4 /\ SubSeq(fn, Len(fn) - 3, Len(fn)) = ".dec"

\* predicted permutation-call sequence of a recorded call, or <<"unpredicted">> for functions
\* whose sequence the specification does not spell out (then only the taint verdict is demanded)
Predicted(ev) ==
  LET sc == Scheme(ev.fn)
      ml == IF sc.fam \in {"aead", "siv"} /\ ev.xlen >= 16 THEN ev.xlen - 16 ELSE ev.mlen IN
  CASE sc.fam = "aead" -> AeadRounds(sc.rate, sc.b, ev.adlen, ml)
    [] sc.fam = "siv" /\ ev.xlen = 0 -> SivEncRounds(sc.rate, sc.b, ev.adlen, ml)
    [] sc.fam = "siv" -> SivDecRounds(sc.rate, sc.b, ev.adlen, ml)
    [] sc.fam = "prf" -> PrfRounds(ev.mlen, IF ev.fn = "prf" THEN ev.outlen ELSE 16)
    [] OTHER -> <<"unpredicted">>
=========================================================================
