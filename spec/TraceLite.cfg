SPECIFICATION Spec
INVARIANT Conforms
POSTCONDITION Consumed
CHECK_DEADLOCK FALSE
