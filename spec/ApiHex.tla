------------------------------- MODULE ApiHex -------------------------------
(* C20, hex codec.  Characters and bytes are integers.                     *)
(* HexDecSpec is the documented function: decoding accepts exactly         *)
(* hexadecimal digits with optional whitespace and returns the number of   *)
(* bytes decoded, or -1 for any other character, an odd digit count or     *)
(* insufficient space.  HexDecAuto is the decoder shaped like the code     *)
(* (one pass, nibble flag, space checked when a byte is completed); MC_Hex *)
(* shows they agree and that the automaton never writes at index >= space. *)
EXTENDS Naturals, Sequences, SequencesExt

IsDec(c)  == c >= 48 /\ c <= 57
IsLow(c)  == c >= 97 /\ c <= 102
IsUp(c)   == c >= 65 /\ c <= 70
IsHexCh(c) == IsDec(c) \/ IsLow(c) \/ IsUp(c)
IsWs(c)   == c \in {32, 9, 13, 10, 12, 11}       \* space \t \r \n \f \v
DigitVal(c) == IF IsDec(c) THEN c - 48 ELSE IF IsLow(c) THEN c - 87 ELSE c - 55

HexDigit(v, upper) == IF v < 10 THEN 48 + v ELSE (IF upper THEN 55 ELSE 87) + v
HexEnc(bytes, upper) ==
  FoldLeft(LAMBDA acc, b : acc \o <<HexDigit(b \div 16, upper), HexDigit(b % 16, upper)>>, <<>>, bytes)

\* ascon_bytes_to_hex(out, outlen, in, inlen, upper): [ret, out] - the characters and a NUL
BytesToHex(bytes, outlen, upper) ==
  IF outlen < 2 * Len(bytes) + 1 THEN [ret |-> -1, out |-> <<>>]
  ELSE [ret |-> 2 * Len(bytes), out |-> HexEnc(bytes, upper) \o <<0>>]

\* the documented decoder
HexDecSpec(chars, space) ==
  LET ds == SelectSeq(chars, LAMBDA c : ~IsWs(c))
      ok == (\A i \in 1..Len(ds) : IsHexCh(ds[i])) /\ Len(ds) % 2 = 0 /\ Len(ds) \div 2 <= space
  IN IF ~ok THEN [ret |-> -1, out |-> <<>>]
     ELSE [ret |-> Len(ds) \div 2,
           out |-> [i \in 1..(Len(ds) \div 2) |-> DigitVal(ds[2 * i - 1]) * 16 + DigitVal(ds[2 * i])]]

\* the decoder automaton: state [posn, value, nibble, out, fail, maxw]; maxw = highest index written + 1
HexStep(st, ch) ==
  IF st.fail THEN st
  ELSE IF IsWs(ch) THEN st
  ELSE IF ~IsHexCh(ch) THEN [st EXCEPT !.fail = TRUE]
  ELSE IF st.nibble = 1
       THEN IF st.posn >= st.space THEN [st EXCEPT !.fail = TRUE]
            ELSE [st EXCEPT !.out = Append(st.out, st.value + DigitVal(ch)), !.posn = st.posn + 1, !.nibble = 0]
       ELSE [st EXCEPT !.value = DigitVal(ch) * 16, !.nibble = 1]
HexDecAuto(chars, space) ==
  LET st == FoldLeft(HexStep, [posn |-> 0, value |-> 0, nibble |-> 0, out |-> <<>>, fail |-> FALSE, space |-> space], chars)
  IN IF st.fail \/ st.nibble = 1 THEN [ret |-> -1, out |-> <<>>, written |-> Len(st.out)]
     ELSE [ret |-> st.posn, out |-> st.out, written |-> Len(st.out)]

\* C++ helper ascon::bytes_from_hex: exactly the decoded bytes, or an empty array if invalid
BytesFromHex(chars) == LET r == HexDecSpec(chars, Len(chars)) IN IF r.ret = -1 THEN <<>> ELSE r.out
=========================================================================
