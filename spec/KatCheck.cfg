SPECIFICATION Spec
INVARIANT Agree
POSTCONDITION AllDone
CHECK_DEADLOCK FALSE
CONSTANTS
  PermOp <- CPermOp
  BX <- CBX
  BC <- CBC
  BBit <- CBBit
  BBase <- CBBase
  BHas <- CBHas
  RekeyOp <- IsapRekeyBits
