------------------------------- MODULE ApiPrng -------------------------------
(* C15: the SpongePRNG of src/random/ascon-prng.c as a state machine with  *)
(* an explicit environment.  Object: [xof : sponge object, counter].       *)
(* Environment: the system entropy source is consumed one 32-byte draw at  *)
(* a time, each draw being [ok, bytes] (ok = 0: the source reported        *)
(* failure; its bytes are still absorbed); storage callbacks return a      *)
(* byte count or -1.  Every public action ends with Rekey: align to a      *)
(* block boundary, then four times zero-the-rate-then-permute, so the      *)
(* state that produced earlier output cannot be recomputed.                *)
EXTENDS ApiSponge

PrngLimit == 16384
XofP == SpPar("xof")
PrngName == Bytes(<<83, 112, 111, 110, 103, 101, 80, 82, 78, 71>>)     \* "SpongePRNG"

\* forward-security step
PrngRekey(x) ==
  LET x0 == SpPad(XofP, x)
      s4 == FoldLeft(LAMBDA acc, i : P(ZeroRate(acc, 8), 0), x0.s, Idx(4))
  IN [x0 EXCEPT !.s = s4]

\* parameterised by the reseed limit so that MC_Prng can scale it down
PrngInit(draw) ==
  LET x0 == SpInitCustom("xof", PrngName, <<>>, SzOf(0))
  IN [o |-> [xof |-> PrngRekey(SpAbsorb(XofP, x0, draw.bytes)), counter |-> 0], ret |-> draw.ok]

PrngReseed(o, draw) ==
  [o |-> [xof |-> PrngRekey(SpAbsorb(XofP, o.xof, draw.bytes)), counter |-> 0], ret |-> draw.ok]

\* fetch n bytes; draws = the (possibly empty) sequence of source draws consumed: exactly one
\* iff the counter had reached the limit.  Result [o, out, used]
PrngFetch(o, n, limit, draw) ==
  LET need == o.counter >= limit
      o1   == IF need THEN PrngReseed(o, draw).o ELSE o
      r    == SpSqueeze(XofP, o1.xof, n)
      c    == IF n < limit THEN o1.counter + n ELSE limit
  IN [o |-> [xof |-> PrngRekey(r.o), counter |-> c], out |-> r.out, used |-> IF need THEN 1 ELSE 0]

PrngFeed(o, data) ==
  [o EXCEPT !.xof = PrngRekey(SpPad(XofP, SpAbsorb(XofP, o.xof, data)))]

\* the global one-shot ascon_random(out, n): XOF with declared length n over one draw
RandomOneShot(draw, n) == [ret |-> IF draw.ok # 0 THEN 1 ELSE 0, out |-> XofFixed("xof", n, draw.bytes, n[3] * 65536 + n[4])]

\* save: fetch 32 bytes, hand them to storage->write; documented result: 0 saved, -1 failed
\* (storage of less than 32 bytes is refused with -1 before anything happens).  wres = what
\* the write callback returned.  Result [o, ret, written]
PrngSave(o, limit, draw, stSize, wres) ==
  IF stSize < 32 THEN [o |-> o, ret |-> -1, written |-> <<>>, used |-> 0]
  ELSE LET f == PrngFetch(o, 32, limit, draw)
       IN [o |-> f.o, ret |-> IF wres = 32 THEN 0 ELSE -1, written |-> f.out, used |-> f.used]

\* load: read 32 bytes (fed only if all 32 arrived), reseed from the system source, then
\* fetch and store a fresh seed.  rres = what the read callback returned, rbytes = what it delivered.
PrngLoad(o, limit, draws, stSize, rres, rbytes) ==
  IF stSize < 32 THEN [o |-> o, ret |-> -1, written |-> <<>>, used |-> 0]
  ELSE LET o1 == IF rres = 32 THEN PrngFeed(o, rbytes) ELSE o
           o2 == PrngReseed(o1, draws[1]).o
           f  == PrngFetch(o2, 32, limit, draws[1])       \* counter was just reset: never draws again
       IN [o |-> f.o, ret |-> IF rres = 32 THEN 0 ELSE -1, written |-> f.out, used |-> 1]
=========================================================================
