----------------------------- MODULE TraceLite -----------------------------
(* C12: the memory-safety view of a driver trace.  It does not recompute   *)
(* any cryptography (Trace.tla does that); it consumes every event and     *)
(* demands what "no out-of-bounds access, no undefined behaviour, no stray *)
(* output write" means for a trace recorded from a sanitizer build:        *)
(*   - no Fault event (sanitizer report, signal, abort, object canary) and *)
(*     the trace is complete (Consumed);                                   *)
(*   - every output buffer's canaries on both sides are intact ("guard");  *)
(*   - calls that report an error left the output buffer untouched where   *)
(*     the documentation says so ("untouched" is judged by Trace.tla).     *)
EXTENDS Naturals, Sequences, Json, IOUtils, TLC
T == ndJsonDeserialize(IOEnv.TRACE)
VARIABLES l, bad
vars == <<l, bad>>
GuardOK(ev) ==
  /\ ("guard" \in DOMAIN ev => ev.guard = 1)
  /\ ("res" \in DOMAIN ev => \A i \in DOMAIN ev.res : ("guard" \in DOMAIN ev.res[i]) => ev.res[i].guard = 1)
  /\ ("signaled" \in DOMAIN ev => ev.signaled = 0 /\ ev.sanitizer = 0)
Init == l = 1 /\ bad = <<>>
Next == /\ l <= Len(T)
        /\ T[l].e \notin {"Fault", "HarnessError"}
        /\ bad' = IF GuardOK(T[l]) THEN <<>> ELSE <<l, T[l].e>>
        /\ l' = l + 1
Spec == Init /\ [][Next]_vars
Conforms == bad = <<>>
Consumed == TLCGet("stats").diameter - 1 = Len(T)
=========================================================================
