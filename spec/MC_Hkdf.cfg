SPECIFICATION Spec
INVARIANT Inv
CHECK_DEADLOCK FALSE
CONSTANTS
  Chunks = {0, 1, 31, 32, 33, 64, 100}
  MaxFresh = 200
  PermOp <- SPermOp
  BX <- SBX
  BC <- SBC
  BBit <- SBBit
  BBase <- SBBase
  BHas <- SBHas
