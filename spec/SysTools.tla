------------------------------- MODULE SysTools -------------------------------
(* L3 (C19): asconcrypt as a process - a sequence of system calls against  *)
(* a file system, with an environment that may fail, shorten or interrupt  *)
(* the k-th call of one kind, and with input files that may have been      *)
(* modified or truncated.  The control structure follows apps/asconcrypt   *)
(* (exit_val, "goto cleanup", unlink of the output on failure, the sliding *)
(* 16-byte tail of decryption, the return convention of safe_file_write).  *)
(* Cryptography is abstract: a file is a sequence of abstract buffers, the *)
(* encrypted form records what was written; a modified file is one whose   *)
(* header/password block/body/tag is flagged bad.  The 8192-round PBKDF2   *)
(* is not evaluated.                                                       *)
(*                                                                         *)
(* Claims (invariants at pc = "done"):                                     *)
(*   R  no fault, authentic input: exit 0, output complete                 *)
(*   T  modified / truncated input or wrong password: exit # 0, no output  *)
(*   F  a failed open/read/write/random: exit # 0, no output file left     *)
(*   I  an interrupted call (EINTR) alone never makes the tool fail        *)
(* WriteConvention = "count" is the repaired tool (a write succeeded iff   *)
(* it transferred the whole buffer); "nonzero" is the shipped convention   *)
(* "!safe_file_write()" with -1 on error, kept as a negative instance.     *)
(* ReadConvention = "loop" is the shipped safe_file_read (a read() that     *)
(* returns fewer bytes than asked is followed by another one: pipes, ttys,  *)
(* sockets deliver in bursts); "once" takes the first short count for the   *)
(* end of the stream and is kept as a second negative instance.             *)
(* A write() may also transfer only part of the buffer without any error    *)
(* (a pipe or socket that takes what fits, a signal after the first bytes): *)
(* fault kind "burst".  safe_file_write then calls write() again for the    *)
(* rest; ResumeConvention = "advance" (the shipped loop: d += temp) goes on *)
(* where the transfer stopped, "restart" sends the beginning of the buffer  *)
(* again - right length, wrong bytes - and is the third negative instance.  *)
EXTENDS Integers, Sequences, TLC

CONSTANTS MaxBlocks, WriteConvention, ReadConvention, ResumeConvention

Ops == {"open", "read", "write", "getrandom"}
Kinds == {"error", "short", "eintr", "burst"}
NoFault == [op |-> "none", k |-> 0, kind |-> "none"]
Faults == {NoFault} \cup [op : Ops, k : 1..(2 * MaxBlocks + 6), kind : {"error", "eintr"}]
          \cup [op : {"write"}, k : 1..(2 * MaxBlocks + 6), kind : {"short"}]    \* disk full after a partial write
          \cup [op : {"read"}, k : 1..(2 * MaxBlocks + 6), kind : {"short"}]     \* a burst boundary of a pipe: not the end
          \cup [op : {"write"}, k : 1..(2 * MaxBlocks + 6), kind : {"burst"}]    \* part of the buffer taken, no error

\* the encrypted input of a decryption: which parts are authentic
Inputs == [hdr : BOOLEAN, pw : BOOLEAN, tag16 : BOOLEAN, blocks : 0..MaxBlocks, body : BOOLEAN, tag : BOOLEAN]

VARIABLES mode, fault, input, pc, exitv, outExists, outBlocks, calls, tripped, blk, stderr, outGood
vars == <<mode, fault, input, pc, exitv, outExists, outBlocks, calls, tripped, blk, stderr, outGood>>

Authentic(i) == i.hdr /\ i.pw /\ i.tag16 /\ i.body /\ i.tag

Init == /\ mode \in {"enc", "dec"}
        /\ fault \in Faults
        /\ input \in (IF mode = "enc" THEN {[hdr |-> TRUE, pw |-> TRUE, tag16 |-> TRUE, blocks |-> n, body |-> TRUE, tag |-> TRUE] : n \in 0..MaxBlocks}
                      ELSE Inputs)
        /\ pc = "open_in" /\ exitv = 0 /\ outExists = FALSE /\ outBlocks = 0
        /\ calls = [o \in Ops |-> 0] /\ tripped = FALSE /\ blk = 0 /\ stderr = FALSE /\ outGood = TRUE

\* One system call of kind op: returns "ok", "fail" or "short".  EINTR is retried by the safe_file
\* wrappers and by the entropy reader, so it is "ok" after one more call.
Sys(op) ==
  LET n == calls[op] + 1
      here == fault.op = op /\ fault.k = n
  IN [res |-> IF here /\ fault.kind = "error" THEN "fail"
              ELSE IF here /\ fault.kind = "short" /\ op = "write" THEN "short"
              ELSE IF here /\ fault.kind = "short" /\ op = "read" THEN (IF ReadConvention = "loop" THEN "ok" ELSE "eof")
              ELSE IF tripped /\ fault.op = op /\ op = "write" /\ fault.kind = "short" THEN "fail"   \* disk stays full
              ELSE "ok",      \* includes "burst": the wrapper's second write() completes the buffer
      calls |-> [calls EXCEPT ![op] = IF here /\ (fault.kind \in {"eintr", "burst"} \/ (fault.kind = "short" /\ op = "read" /\ ReadConvention = "loop")) THEN n + 1 ELSE n],
      \* the bytes that reached the file are the buffer's, unless the resumed write started over
      damaged |-> here /\ fault.kind = "burst" /\ ResumeConvention = "restart",
      \* a disturbance is a fault the tool cannot absorb: EINTR and a short read of a live stream are not
      trip |-> tripped \/ (here /\ fault.kind \notin {"eintr", "burst"} /\ ~(fault.kind = "short" /\ op = "read"))]

\* did a write of a whole buffer succeed, as the tool judges it?
WriteOK(res) == IF WriteConvention = "count" THEN res = "ok"
                ELSE TRUE     \* "!result": -1 and partial counts are non-zero and look like success

Goto(p) == pc' = p
Fail(p) == /\ exitv' = 0 /\ stderr' = TRUE /\ Goto(p)

OpenIn == /\ pc = "open_in"
          /\ LET s == Sys("open") IN
             /\ calls' = s.calls /\ tripped' = s.trip
             /\ IF s.res = "ok" THEN Goto("open_out") /\ UNCHANGED <<exitv, stderr>>
                ELSE /\ exitv' = 0 /\ stderr' = TRUE /\ Goto("done")          \* returns before any output exists
          /\ UNCHANGED <<mode, fault, input, outExists, outBlocks, blk, outGood>>
OpenOut == /\ pc = "open_out"
           /\ LET s == Sys("open") IN
              /\ calls' = s.calls /\ tripped' = s.trip
              /\ IF s.res = "ok" THEN /\ outExists' = TRUE /\ Goto(IF mode = "enc" THEN "random" ELSE "read_hdr") /\ UNCHANGED <<exitv, stderr>>
                 ELSE /\ exitv' = 0 /\ stderr' = TRUE /\ Goto("done") /\ UNCHANGED outExists
           /\ UNCHANGED <<mode, fault, input, outBlocks, blk, outGood>>

\* ---- encryption
Random == /\ pc = "random"
          /\ LET s == Sys("getrandom") IN
             /\ calls' = s.calls /\ tripped' = s.trip
             /\ IF s.res = "ok" THEN /\ exitv' = 1 /\ Goto("write_hdr") /\ UNCHANGED stderr
                ELSE Fail("cleanup")
          /\ UNCHANGED <<mode, fault, input, outExists, outBlocks, blk, outGood>>
WriteHdr == /\ pc = "write_hdr"
            /\ LET s == Sys("write") IN
               /\ calls' = s.calls /\ tripped' = s.trip /\ outGood' = (outGood /\ ~s.damaged)
               /\ exitv' = IF WriteOK(s.res) THEN exitv ELSE 0
               /\ Goto("enc_read")
            /\ UNCHANGED <<mode, fault, input, outExists, outBlocks, blk, stderr>>
EncRead == /\ pc = "enc_read"
           /\ IF exitv = 0 THEN Goto("enc_final") /\ UNCHANGED <<calls, tripped, exitv, blk, stderr>>
              ELSE LET s == Sys("read") IN
                   /\ calls' = s.calls /\ tripped' = s.trip
                   /\ IF s.res = "fail" THEN /\ exitv' = 0 /\ stderr' = TRUE /\ Goto("enc_final") /\ UNCHANGED blk
                      ELSE IF blk >= input.blocks \/ s.res = "eof" THEN Goto("enc_final") /\ UNCHANGED <<exitv, blk, stderr>>     \* end of file
                      ELSE /\ blk' = blk + 1 /\ Goto("enc_write") /\ UNCHANGED <<exitv, stderr>>
           /\ UNCHANGED <<mode, fault, input, outExists, outBlocks, outGood>>
EncWrite == /\ pc = "enc_write"
            /\ LET s == Sys("write") IN
               /\ calls' = s.calls /\ tripped' = s.trip /\ outGood' = (outGood /\ ~s.damaged)
               /\ exitv' = IF WriteOK(s.res) THEN exitv ELSE 0
               /\ outBlocks' = IF s.res = "ok" THEN outBlocks + 1 ELSE outBlocks
               /\ Goto("enc_read")
            /\ UNCHANGED <<mode, fault, input, outExists, blk, stderr>>
EncFinal == /\ pc = "enc_final"
            /\ IF exitv = 1
               THEN LET s == Sys("write") IN
                    /\ calls' = s.calls /\ tripped' = s.trip /\ outGood' = (outGood /\ ~s.damaged)
                    /\ exitv' = IF WriteOK(s.res) THEN 1 ELSE 0
               ELSE UNCHANGED <<calls, tripped, exitv, outGood>>
            /\ Goto("cleanup")
            /\ UNCHANGED <<mode, fault, input, outExists, outBlocks, blk, stderr>>

\* ---- decryption
ReadHdr == /\ pc = "read_hdr"
           /\ LET s == Sys("read") IN
              /\ calls' = s.calls /\ tripped' = s.trip
              /\ IF s.res # "ok" \/ ~input.hdr THEN Fail("cleanup")                 \* unrecognized format
                 ELSE IF ~input.pw THEN Fail("cleanup")                              \* password is incorrect
                 ELSE Goto("read16") /\ UNCHANGED <<exitv, stderr>>
           /\ UNCHANGED <<mode, fault, input, outExists, outBlocks, blk, outGood>>
Read16 == /\ pc = "read16"
          /\ LET s == Sys("read") IN
             /\ calls' = s.calls /\ tripped' = s.trip
             /\ IF s.res # "ok" \/ ~input.tag16 THEN Fail("cleanup")               \* encrypted data is truncated
                ELSE /\ exitv' = 1 /\ Goto("dec_read") /\ UNCHANGED stderr
          /\ UNCHANGED <<mode, fault, input, outExists, outBlocks, blk, outGood>>
DecRead == /\ pc = "dec_read"
           /\ IF exitv = 0 THEN Goto("dec_final") /\ UNCHANGED <<calls, tripped, exitv, blk, stderr>>
              ELSE LET s == Sys("read") IN
                   /\ calls' = s.calls /\ tripped' = s.trip
                   /\ IF s.res = "fail" THEN /\ exitv' = 0 /\ stderr' = TRUE /\ Goto("dec_final") /\ UNCHANGED blk
                      ELSE IF blk >= input.blocks \/ s.res = "eof" THEN Goto("dec_final") /\ UNCHANGED <<exitv, blk, stderr>>
                      ELSE /\ blk' = blk + 1 /\ Goto("dec_write") /\ UNCHANGED <<exitv, stderr>>
           /\ UNCHANGED <<mode, fault, input, outExists, outBlocks, outGood>>
DecWrite == /\ pc = "dec_write"
            /\ LET s == Sys("write") IN
               /\ calls' = s.calls /\ tripped' = s.trip /\ outGood' = (outGood /\ ~s.damaged)
               /\ exitv' = IF WriteOK(s.res) THEN exitv ELSE 0
               /\ outBlocks' = IF s.res = "ok" THEN outBlocks + 1 ELSE outBlocks
               /\ Goto("dec_read")
            /\ UNCHANGED <<mode, fault, input, outExists, blk, stderr>>
DecFinal == /\ pc = "dec_final"
            /\ LET tagok == input.body /\ input.tag IN
               IF ~tagok /\ exitv = 1 THEN /\ exitv' = 0 /\ stderr' = TRUE ELSE UNCHANGED <<exitv, stderr>>
            /\ Goto("cleanup")
            /\ UNCHANGED <<mode, fault, input, outExists, outBlocks, blk, calls, tripped, outGood>>

Cleanup == /\ pc = "cleanup"
           /\ outExists' = IF exitv = 0 THEN FALSE ELSE outExists            \* safe_file_delete on failure
           /\ Goto("done")
           /\ UNCHANGED <<mode, fault, input, exitv, outBlocks, calls, tripped, blk, stderr, outGood>>

Next == OpenIn \/ OpenOut \/ Random \/ WriteHdr \/ EncRead \/ EncWrite \/ EncFinal
        \/ ReadHdr \/ Read16 \/ DecRead \/ DecWrite \/ DecFinal \/ Cleanup
Spec == Init /\ [][Next]_vars

-----------------------------------------------------------------------------
Done == pc = "done"
ExitStatus == IF exitv = 1 THEN 0 ELSE 1
Disturbed == tripped                                \* a non-EINTR fault was actually injected
R == (Done /\ ~Disturbed /\ Authentic(input)) => (ExitStatus = 0 /\ outExists /\ outBlocks = input.blocks /\ outGood)
T == (Done /\ ~Authentic(input)) => (ExitStatus # 0 /\ ~outExists)
F == (Done /\ Disturbed) => (ExitStatus # 0 /\ ~outExists)
Loud == (Done /\ ExitStatus # 0) => stderr
Inv == R /\ T /\ F
=========================================================================
