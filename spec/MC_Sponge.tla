---------------------------- MODULE MC_Sponge ----------------------------
(* Exhaustive check (symbolic instance) of the incremental sponge objects  *)
(* of ApiSponge (XOF lazy, XOFA eager, PRF with 32/16 byte rates and a     *)
(* separator) against the one-shot functions of AsconModes:                *)
(*   - every partition of the input into absorb calls and of the output    *)
(*     into squeeze calls, including empty calls, gives the one-shot bytes; *)
(*   - a copy taken at any point continues exactly like its original;      *)
(*   - re-initialising after any history equals a fresh object;            *)
(*   - pad() equals absorbing zero bytes up to the block boundary;         *)
(*   - absorbing after squeezing (the library's duplex use, relied on by   *)
(*     the PRNG) starts a new phase from the permuted state - a named      *)
(*     deviation from the idealised sponge, checked phase-wise.            *)
EXTENDS ApiSponge, Sym, TLC

CONSTANTS MaxIn, MaxOut,    \* bounds in blocks: total input <= MaxIn*rin + 5, output <= MaxOut*rout + 5
          Kinds,            \* subset of {"xof", "xofa", "prf"}
          WithCopy,         \* explore copies (only XOF/XOFA/HASH objects can be copied)
          ChunkLens,        \* chunk lengths explored (a set of naturals; bounds still apply)
          Duplex            \* explore absorb-after-squeeze (second phase bounded by one block + 1 each way)

VARIABLES kind,    \* "xof" | "xofa" | "prf"
          o,       \* object 1
          o2,      \* a copy of object 1 (or <<>>)
          start,   \* permutation state at the start of the current absorb phase
          hin,     \* bytes absorbed in the current phase
          hout,    \* bytes squeezed in the current phase (by object 1)
          hin2,    \* input absorbed by the original when the copy was taken
          hout2,   \* bytes squeezed by the copy (continuing the original's output at copy time)
          phaseNo, \* number of absorb phases so far (duplex)
          reinits
vars == <<kind, o, o2, start, hin, hout, hin2, hout2, phaseNo, reinits>>

Par == SpPar(kind)
InBound  == MaxIn * Par.rin + 5
OutBound == MaxOut * Par.rout + 5
KeySyms == Syms("k", 0, 16)

Fresh0(k) == CASE k = "xof" -> SpInitXof("xof", SzOf(0)) [] k = "xofa" -> SpInitXof("xofa", SzOf(0))
               [] k = "prf" -> SpInitPrf(Syms("k", 0, 16), SzOf(0))

Init == /\ kind \in Kinds
        /\ o = Fresh0(kind) /\ o2 = <<>> /\ start = Fresh0(kind).s
        /\ hin = <<>> /\ hout = <<>> /\ hin2 = <<>> /\ hout2 = <<>> /\ phaseNo = 1 /\ reinits = 0

DoAbsorb(n) == /\ o2 = <<>> /\ o.mode = 0 /\ Len(hin) + n <= (IF phaseNo = 1 THEN InBound ELSE Par.rin + 1)
             /\ LET d == Syms(<<"m", phaseNo>>, Len(hin), n) IN
                /\ o' = SpAbsorb(Par, o, d) /\ hin' = hin \o d
             /\ UNCHANGED <<kind, o2, start, hout, hin2, hout2, phaseNo, reinits>>

DoSqueeze(n) == /\ o2 = <<>> /\ Len(hout) + n <= (IF phaseNo = 1 THEN OutBound ELSE Par.rout + 1)
              /\ LET r == SpSqueeze(Par, o, n) IN o' = r.o /\ hout' = hout \o r.out
              /\ UNCHANGED <<kind, o2, start, hin, hin2, hout2, phaseNo, reinits>>

\* copy at any point; the copy then squeezes on its own (the original is frozen from then on: in
\* this functional model an action on one object cannot touch another, the real library's
\* independence of original and copy is bound by the trace-validated random walks)
DoCopy == /\ WithCopy /\ o2 = <<>> /\ o2' = o /\ hout2' = hout /\ hin2' = hin
        /\ UNCHANGED <<kind, o, start, hin, hout, phaseNo, reinits>>
DoSqueeze2(n) == /\ o2 # <<>> /\ Len(hout2) + n <= OutBound
               /\ LET r == SpSqueeze(Par, o2, n) IN o2' = r.o /\ hout2' = hout2 \o r.out
               /\ UNCHANGED <<kind, o, start, hin, hout, hin2, phaseNo, reinits>>

\* duplex: absorb after squeeze starts a new phase (mode = 1 only)
ReAbsorb(n) == /\ Duplex /\ o.mode = 1 /\ phaseNo < 2 /\ n <= Par.rin + 1
               /\ Len(hin) <= Par.rin + 1 /\ Len(hout) <= Par.rout + 1
               /\ LET d == Syms(<<"m", phaseNo + 1>>, 0, n)
                      st == SpAbsorb(Par, o, <<>>) IN
                  /\ o' = SpAbsorb(Par, o, d) /\ start' = st.s /\ hin' = d
               /\ hout' = <<>> /\ hout2' = <<>> /\ hin2' = <<>> /\ o2' = <<>> /\ phaseNo' = phaseNo + 1
               /\ UNCHANGED <<kind, reinits>>

Reinit == /\ reinits = 0 /\ (hin # <<>> \/ hout # <<>>)
          /\ o' = Fresh0(kind) /\ o2' = <<>> /\ start' = Fresh0(kind).s
          /\ hin' = <<>> /\ hout' = <<>> /\ hin2' = <<>> /\ hout2' = <<>> /\ phaseNo' = 1 /\ reinits' = 1
          /\ UNCHANGED kind

Next == (\E n \in ChunkLens : DoAbsorb(n) \/ DoSqueeze(n) \/ DoSqueeze2(n) \/ ReAbsorb(n))
        \/ DoCopy \/ Reinit
AllChunks == 0..69
DuplexChunks == 0..37
CopyChunks == 0..13
Spec == Init /\ [][Next]_vars

-----------------------------------------------------------------------------
\* the one-shot function from an arbitrary starting state (for the first phase this is the
\* documented function: Xof / Xofa / Prf)
OneShot(S, M, n) ==
  IF kind = "prf" THEN PrfFrom(S, M, n) ELSE XofFrom(S, Par.v, M, n)

OutputOK  == o.mode = 1 => hout = OneShot(start, hin, Len(hout))
CopyOK    == o2 # <<>> /\ o2.mode = 1 => hout2 = OneShot(start, hin2, Len(hout2))
CountOK   == /\ o.count < (IF o.mode = 0 THEN Par.rin ELSE Par.rout)
             /\ o.mode = 0 => o.count = Len(hin) % Par.rin
             /\ o.mode = 1 => o.count = Len(hout) % Par.rout
\* first phase of a fresh (or re-initialised) object: the documented functions themselves
DocOK == (phaseNo = 1 /\ o.mode = 1) =>
           hout = (CASE kind = "xof" -> Xof(hin, Len(hout)) [] kind = "xofa" -> Xofa(hin, Len(hout))
                     [] kind = "prf" -> Prf(KeySyms, hin, Len(hout)))
\* pad() = absorb zeroes to the next block boundary
PadOK == o.mode = 0 => SpPad(Par, o) = SpAbsorb(Par, o, Zeros((Par.rin - o.count) % Par.rin))

Inv == OutputOK /\ CopyOK /\ CountOK /\ DocOK /\ PadOK
=========================================================================
