--------------------------- MODULE AsconModes ---------------------------
(* L1: the documented functions as pure operators over the byte/state      *)
(* algebra of AsconAlg.  Written from the ASCON v1.2 submission, the       *)
(* ASCON-PRF paper, ISAP v2.0, RFC 2104 / 5869 / 8018 and the library's    *)
(* own doc/*.dox for the library-defined constructions (cXOF, KMAC, SIV,   *)
(* PBKDF2 PRF) - not from the C code.  Anchored on the reference KAT files *)
(* by KatCheck.tla.                                                        *)
(*                                                                         *)
(* Conventions: byte strings are sequences of algebra bytes; offsets are   *)
(* 0-based as in the documents; "first round" r means p^(12-r).            *)
EXTENDS AsconAlg

-----------------------------------------------------------------------------
(* generic sponge helpers                                                  *)

\* absorb all FULL rate blocks of data (XOR, then permute with first round fr)
AbsorbFull(S, data, rate, fr) ==
  FoldLeft(LAMBDA acc, i : P(XorIn(acc, 0, Slice(data, (i - 1) * rate, rate)), fr),
           S, Idx(Len(data) \div rate))

\* the bytes after the last full block
Rest(data, rate) == Slice(data, (Len(data) \div rate) * rate, Len(data) % rate)

\* absorb data with 10* padding; the final padded block is XORed in but NOT permuted
AbsorbPadded(S, data, rate, fr) ==
  LET S1 == AbsorbFull(S, data, rate, fr)
      t  == Rest(data, rate)
  IN Pad(XorIn(S1, 0, t), Len(t))

\* squeeze n bytes: rate bytes, permute(fr), rate bytes, ... (no permutation after the last)
Squeeze(S, n, rate, fr) ==
  LET nb == (n + rate - 1) \div rate
      r  == FoldLeft(LAMBDA acc, i :
                       LET need == Min2(rate, n - (i - 1) * rate)
                           s    == IF i = 1 THEN acc.s ELSE P(acc.s, fr)
                       IN [s |-> s, out |-> acc.out \o Ext(s, 0, need)],
                     [s |-> S, out |-> <<>>], Idx(nb))
  IN r.out

-----------------------------------------------------------------------------
(* ASCON-128 / 128a / 80pq authenticated encryption (v1.2, section 2.4)    *)

AeadPar(v) ==
  CASE v = "128"  -> [klen |-> 16, rate |-> 8,  b |-> 6, iv |-> <<128, 64, 12, 6, 0, 0, 0, 0>>]
    [] v = "128a" -> [klen |-> 16, rate |-> 16, b |-> 4, iv |-> <<128, 128, 12, 8, 0, 0, 0, 0>>]
    [] v = "80pq" -> [klen |-> 20, rate |-> 8,  b |-> 6, iv |-> <<160, 64, 12, 6>>]

\* Initialization: S = p^a(IV || K || N) XOR (0* || K)
AeadInitIV(par, iv, K, N) ==
  XorIn(P(Ovw(State0, 0, Bytes(iv) \o K \o N), 0), 40 - par.klen, K)

\* Associated data: nothing if empty; else padded blocks, p^b after each; then the 1-bit separator
AeadAD(S, par, A) ==
  Sep(IF Len(A) = 0 THEN S ELSE P(AbsorbPadded(S, A, par.rate, par.b), par.b))

\* Plaintext: C_i = S_r XOR P_i, S_r := C_i, p^b between blocks; last block padded, truncated
AeadEncBody(S, par, M) ==
  LET rate == par.rate
      r == FoldLeft(LAMBDA acc, i :
                      LET c == XorSeq(Slice(M, (i - 1) * rate, rate), Ext(acc.s, 0, rate))
                      IN [s |-> P(Ovw(acc.s, 0, c), par.b), c |-> acc.c \o c],
                    [s |-> S, c |-> <<>>], Idx(Len(M) \div rate))
      t  == Rest(M, rate)
      ct == XorSeq(t, Ext(r.s, 0, Len(t)))
  IN [s |-> Pad(Ovw(r.s, 0, ct), Len(t)), c |-> r.c \o ct]

AeadDecBody(S, par, C) ==
  LET rate == par.rate
      r == FoldLeft(LAMBDA acc, i :
                      LET c == Slice(C, (i - 1) * rate, rate)
                      IN [s |-> P(Ovw(acc.s, 0, c), par.b),
                          m |-> acc.m \o XorSeq(c, Ext(acc.s, 0, rate))],
                    [s |-> S, m |-> <<>>], Idx(Len(C) \div rate))
      t  == Rest(C, rate)
  IN [s |-> Pad(Ovw(r.s, 0, t), Len(t)), m |-> r.m \o XorSeq(t, Ext(r.s, 0, Len(t)))]

\* Finalization: S ^= 0^r || K || 0*; p^a; T = last 128 bits of S XOR last 128 bits of K
AeadTag(S, par, K) ==
  LET S1 == P(XorIn(S, par.rate, K), 0)
  IN XorSeq(Ext(S1, 24, 16), Slice(K, par.klen - 16, 16))

AeadEncIV(par, iv, K, N, A, M) ==
  LET b == AeadEncBody(AeadAD(AeadInitIV(par, iv, K, N), par, A), par, M)
  IN b.c \o AeadTag(b.s, par, K)

AeadEnc(v, K, N, A, M) == AeadEncIV(AeadPar(v), AeadPar(v).iv, K, N, A, M)

\* CT = ciphertext || tag with Len(CT) >= 16.  Result: ok flag and the plaintext
AeadDec(v, K, N, A, CT) ==
  LET par == AeadPar(v)
      n   == Len(CT) - 16
      b   == AeadDecBody(AeadAD(AeadInitIV(par, par.iv, K, N), par, A), par, Slice(CT, 0, n))
  IN [ok |-> AeadTag(b.s, par, K) = Slice(CT, n, 16), m |-> b.m]

-----------------------------------------------------------------------------
(* ASCON-SIV (doc/siv.dox).  Pass 1: the AEAD with IV|1, plaintext         *)
(* absorbed like associated data (always padded), tag as in the AEAD.      *)
(* Pass 2: re-initialise with IV|2 and the tag as nonce; keystream blocks  *)
(* are squeezed after p^b (the order the shipped KAT vectors fix).         *)

SivIV(par, n) == [par.iv EXCEPT ![1] = @ + n]

SivTag(par, K, N, A, M) ==
  LET S1 == AeadAD(AeadInitIV(par, SivIV(par, 1), K, N), par, A)
  IN AeadTag(AbsorbPadded(S1, M, par.rate, par.b), par, K)

\* keystream of n bytes: p^b, rate bytes, p^b, rate bytes, ...
SivStream(par, K, T, n) ==
  LET S2 == AeadInitIV(par, SivIV(par, 2), K, T)
      nb == (n + par.rate - 1) \div par.rate
      r  == FoldLeft(LAMBDA acc, i :
                       LET s == P(acc.s, par.b)
                       IN [s |-> s, out |-> acc.out \o Ext(s, 0, Min2(par.rate, n - (i - 1) * par.rate))],
                     [s |-> S2, out |-> <<>>], Idx(nb))
  IN r.out

SivEnc(v, K, N, A, M) ==
  LET par == AeadPar(v)
      T   == SivTag(par, K, N, A, M)
  IN XorSeq(M, SivStream(par, K, T, Len(M))) \o T

SivDec(v, K, N, A, CT) ==
  LET par == AeadPar(v)
      n   == Len(CT) - 16
      T   == Slice(CT, n, 16)
      M   == XorSeq(Slice(CT, 0, n), SivStream(par, K, T, n))
  IN [ok |-> SivTag(par, K, N, A, M) = T, m |-> M]

-----------------------------------------------------------------------------
(* ASCON-HASH / HASHA / XOF / XOFA (v1.2, section 2.5) and the fixed and   *)
(* customised variants.  The 64-bit IV is 0x00 || rate 0x40 || a 0x0c ||   *)
(* (a-b) || 32-bit output length in bits (0 = arbitrary).                  *)

\* size_t values arrive as four 16-bit limbs, most significant first
SzOf(n)   == <<0, 0, n \div 65536, n % 65536>>          \* n < 2^31
SzBig(L)  == L[1] > 0 \/ L[2] > 0 \/ L[3] >= 8192       \* L >= 2^29
\* 32-bit big-endian bit count of a byte count below 2^29
Bits32(L) ==
  LET lo == L[4] * 8
      hi == L[3] * 8 + lo \div 65536
  IN <<hi \div 256, hi % 256, (lo % 65536) \div 256, lo % 256>>
\* the library rule: declared lengths of 2^29 bytes and above mean "arbitrary"
OutLenField(L) == IF SzBig(L) THEN <<0, 0, 0, 0>> ELSE Bits32(L)

\* variant record: ab = (a - b) field of the IV, fb = first round between blocks
XofPar(v) == CASE v = "xof"  -> [ab |-> 0, fb |-> 0]
               [] v = "xofa" -> [ab |-> 4, fb |-> 4]

\* first block: IV || 32 bytes (zero for the plain functions, the function name for cXOF)
XofInitBlock(v, L, name32) ==
  P(Ovw(State0, 0, Bytes(<<0, 64, 12, XofPar(v).ab>> \o OutLenField(L)) \o name32), 0)

\* absorb the message and squeeze: p^b between blocks, p^a between absorbing and squeezing
XofFrom(S, v, M, n) ==
  Squeeze(P(AbsorbPadded(S, M, 8, XofPar(v).fb), 0), n, 8, XofPar(v).fb)

XofFixed(v, L, M, n) == XofFrom(XofInitBlock(v, L, Zeros(32)), v, M, n)
Xof(M, n)   == XofFixed("xof",  SzOf(0),  M, n)
Xofa(M, n)  == XofFixed("xofa", SzOf(0),  M, n)
Hash(M)     == XofFixed("xof",  SzOf(32), M, 32)
Hasha(M)    == XofFixed("xofa", SzOf(32), M, 32)
HashV(v, M) == XofFixed(v, SzOf(32), M, 32)

\* ASCON-cXOF (doc/cxof.dox): name zero padded to 32 bytes, or its ASCON-HASH[A] if longer;
\* customisation string absorbed + padded + permuted (p^b), then the last state bit is
\* inverted; nothing at all is absorbed for an empty customisation string.
CXofName(v, name) == IF Len(name) <= 32 THEN name \o Zeros(32 - Len(name)) ELSE HashV(v, name)
CXofInit(v, name, custom, L) ==
  LET S == XofInitBlock(v, L, CXofName(v, name))
  IN IF Len(custom) = 0 THEN S
     ELSE Sep(P(AbsorbPadded(S, custom, 8, XofPar(v).fb), XofPar(v).fb))
CXof(v, name, custom, L, M, n) == XofFrom(CXofInit(v, name, custom, L), v, M, n)

-----------------------------------------------------------------------------
(* ASCON-Prf / Mac / PrfShort (Dobraunig, Eichlseder, Mendel, Schlaeffer,  *)
(* "Ascon PRF, MAC, and Short-Input MAC").  IV = k || r_o || (1||a) ||     *)
(* 0x00 || t with k = 128, r_o = 128, a = 12, t = output bits (0 = any).   *)
(* Absorb rate 256 bits, last bit of the state flipped after the padded    *)
(* message, squeeze rate 128 bits, p^12 everywhere.                        *)

PrfInit(K, L) == P(Ovw(State0, 0, Bytes(<<128, 128, 140, 0>> \o OutLenField(L)) \o K), 0)
PrfFrom(S, M, n) == Squeeze(P(Sep(AbsorbPadded(S, M, 32, 0)), 0), n, 16, 0)
Prf(K, M, n)      == PrfFrom(PrfInit(K, SzOf(0)), M, n)
PrfFixed(K, M, n) == PrfFrom(PrfInit(K, SzOf(n)), M, n)
Mac(K, M)         == PrfFixed(K, M, 16)

\* PrfShort: |M| <= 16, n <= 16.  IV = k || m || (1||a xor 0x40 ...) per the paper:
\* 0x80, message bits, 0x4c, 0x80, 0^32; state = IV || K || M || 0*; T = (S XOR K) last 128 bits
PrfShort(K, M, n) ==
  LET S == P(Ovw(State0, 0, Bytes(<<128, Len(M) * 8, 76, 128, 0, 0, 0, 0>>) \o K \o M), 0)
  IN Slice(XorSeq(Ext(S, 24, 16), K), 0, n)
=========================================================================
