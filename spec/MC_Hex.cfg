SPECIFICATION Spec
INVARIANT Inv
CHECK_DEADLOCK FALSE
CONSTANTS
  MaxLen = 4
