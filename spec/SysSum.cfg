SPECIFICATION Spec
INVARIANT Inv
CHECK_DEADLOCK FALSE
CONSTANTS
  MaxLines = 3
  ListConvention = "ferror"
  OutConvention = "flush"
