SPECIFICATION Spec
INVARIANT Inv
CHECK_DEADLOCK FALSE
CONSTANTS
  MaxIn = 1
  MaxOut = 1
  Kinds = {"xof", "xofa"}
  WithCopy = TRUE
  Duplex = FALSE
  ChunkLens <- CopyChunks
  PermOp <- SPermOp
  BX <- SBX
  BC <- SBC
  BBit <- SBBit
  BBase <- SBBase
  BHas <- SBHas
