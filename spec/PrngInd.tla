------------------------------ MODULE PrngInd ------------------------------
(* C15, reseed clause, unbounded: the byte counter of ascon_random_state_t  *)
(* (ApiPrng!PrngFetch: c' = IF n < limit THEN c + n ELSE limit, reset to 0  *)
(* by every reseed) is an exact stand-in for "bytes produced since the last *)
(* reseed" as far as the decision to draw fresh entropy is concerned, for   *)
(* every request size up to 2^64 - 1 and the real limit 16384, and it never *)
(* leaves the 32-bit field it is stored in.  Discharged by Apalache as an   *)
(* inductive invariant; MC_Prng explores the same law on a scaled limit     *)
(* together with the sponge; Trace.tla replays real executions with 16384.  *)
EXTENDS Integers

Limit == 16384
MaxReq == 18446744073709551615

VARIABLES
  \* @type: Int;
  counter,      \* the field of the object
  \* @type: Int;
  produced,     \* ghost: bytes handed out since the last reseed
  \* @type: Bool;
  lastDrew,     \* ghost: did the last fetch draw from the system source first
  \* @type: Bool;
  lastDue       \* ghost: had 16384 or more bytes been produced since the last reseed when it started

TypeOK == counter \in Nat /\ produced \in Nat /\ lastDrew \in BOOLEAN /\ lastDue \in BOOLEAN
\* the law: below the limit the field is exact; at or above it both sides agree that it is time
IndInv == /\ TypeOK
          /\ counter < 4294967296
          /\ (counter < Limit => counter = produced)
          /\ (counter >= Limit <=> produced >= Limit)
          /\ lastDrew = lastDue          \* the property's clause: fresh entropy is drawn exactly when it is due

Init == counter = 0 /\ produced = 0 /\ lastDrew = FALSE /\ lastDue = FALSE

Fetch == \E n \in 0..MaxReq :
           LET need == counter >= Limit
               c1 == IF need THEN 0 ELSE counter
               p1 == IF need THEN 0 ELSE produced
           IN /\ counter' = IF n < Limit THEN c1 + n ELSE Limit
              /\ produced' = p1 + n
              /\ lastDrew' = need
              /\ lastDue' = (produced >= Limit)
Reseed == counter' = 0 /\ produced' = 0 /\ UNCHANGED <<lastDrew, lastDue>>
Feed == UNCHANGED <<counter, produced, lastDrew, lastDue>>
Next == Fetch \/ Reseed \/ Feed

\* negative control: "counter is always below the limit" is false (a single large request reaches it)
BadInv == counter < Limit
=========================================================================
