------------------------------ MODULE Trace ------------------------------
(* Trace validation (use C of TLC): replays an ndjson trace recorded by    *)
(* harness/drv from the real library.  Every event carries the arguments   *)
(* of one public call, its results and the projected object state after    *)
(* the call.  Each action below consumes one event: it applies the L2/L1   *)
(* specification to the LOGGED ARGUMENTS, stores what the specification    *)
(* says the results and the state must be in exp, the logged values in     *)
(* obs, and the invariant Conforms compares them.  Nothing is inferred     *)
(* from the plan; nothing but arguments is taken from the trace.           *)
EXTENDS ApiSponge, ApiCpp, ApiKdf, ApiHex, ApiByteArray, ApiPrng, ApiMasked, ApiLeak, Conc, Json, IOUtils, TLC

T == ndJsonDeserialize(IOEnv.TRACE)

VARIABLES l,      \* index of the next event
          objs,   \* object id -> projected object (records of the Api* modules)
          exp,    \* what the specification demands for the event just consumed
          obs     \* what the implementation logged
vars == <<l, objs, exp, obs>>

IsEv(name) == l <= Len(T) /\ T[l].e = name
Put(id, o) == [i \in (DOMAIN objs) \cup {id} |-> IF i = id THEN o ELSE objs[i]]
Del(id)    == [i \in (DOMAIN objs) \ {id} |-> objs[i]]
NoObj      == [i \in {} |-> 0]

Step(newObjs, e, o) == objs' = newObjs /\ exp' = e /\ obs' = o /\ l' = l + 1

\* C13: a terminal (free / clear / destructor) event may carry the raw bytes of the object after
\* the call and a pair number "wipe".  Each history is run twice with different secrets and equal
\* public shape; the second run's bytes must equal the first run's: nothing secret-derived remains.
\* The first run's bytes are parked in objs under the negative key -wipe.
HasWipe(ev) == "wipe" \in DOMAIN ev /\ "raw" \in DOMAIN ev
FreeStep(ev, newObjs, e, o) ==
  IF ~HasWipe(ev) THEN Step(newObjs, e, o)
  ELSE IF (0 - ev.wipe) \in DOMAIN objs
       THEN Step([i \in (DOMAIN newObjs) \ {0 - ev.wipe} |-> newObjs[i]], <<e, objs[0 - ev.wipe].raw>>, <<o, ev.raw>>)
       ELSE Step([i \in (DOMAIN newObjs) \cup {0 - ev.wipe} |-> IF i = 0 - ev.wipe THEN [kind |-> "wipe", raw |-> ev.raw] ELSE newObjs[i]], e, o)

Init == l = 1 /\ objs = NoObj /\ exp = <<>> /\ obs = <<>>

\* reset clears the (thread-)private objects; objects with id >= 1000 are the shared read-only
\* objects of a multi-threaded run (C16) and survive
TrReset == IsEv("Reset") /\ Step([i \in {j \in DOMAIN objs : j >= 1000} |-> objs[i]], <<>>, <<>>)

-----------------------------------------------------------------------------
(* C08: public permutation interface                                       *)
PSet(ev, s) == Put(ev.obj, [kind |-> "perm", s |-> s])
PS(ev) == objs[ev.obj].s

TrPermInit == IsEv("perm.init") /\ LET ev == T[l] IN
  Step(PSet(ev, State0), <<State0.d>>, <<ev.s40>>)
TrPermFree == IsEv("perm.free") /\ LET ev == T[l] IN FreeStep(ev, Del(ev.obj), <<>>, <<>>)
TrPermAdd == IsEv("perm.add") /\ LET ev == T[l]  s == XorIn(PS(ev), ev.off, ev.data) IN
  Step(PSet(ev, s), <<s.d>>, <<ev.s40>>)
TrPermOvw == IsEv("perm.overwrite") /\ LET ev == T[l]  s == Ovw(PS(ev), ev.off, ev.data) IN
  Step(PSet(ev, s), <<s.d>>, <<ev.s40>>)
TrPermZero == IsEv("perm.zero") /\ LET ev == T[l]  s == Ovw(PS(ev), ev.off, Zeros(ev.size)) IN
  Step(PSet(ev, s), <<s.d>>, <<ev.s40>>)
TrPermExtract == IsEv("perm.extract") /\ LET ev == T[l]  s == PS(ev) IN
  Step(objs, <<s.d, Ext(s, ev.off, ev.size), 1>>, <<ev.s40, ev.out, ev.guard>>)
TrPermExtractAdd == IsEv("perm.extract_add") /\ LET ev == T[l]  s == PS(ev) IN
  Step(objs, <<s.d, XorSeq(ev.data, Ext(s, ev.off, Len(ev.data))), 1>>, <<ev.s40, ev.out, ev.guard>>)
TrPermExtractOvw == IsEv("perm.extract_ovw") /\ LET ev == T[l]  s == PS(ev)
                                                     s2 == Ovw(s, ev.off, ev.data) IN
  Step(PSet(ev, s2), <<s2.d, XorSeq(ev.data, Ext(s, ev.off, Len(ev.data))), 1>>, <<ev.s40, ev.out, ev.guard>>)
TrPermPermute == IsEv("perm.permute") /\ LET ev == T[l]  s == P(PS(ev), ev.r) IN
  Step(PSet(ev, s), <<s.d>>, <<ev.s40>>)
TrPermCopy == IsEv("perm.copy") /\ LET ev == T[l]  s == objs[ev.src].s
                                      o1 == IF ev.free_dst = 1 THEN objs ELSE PSet(ev, s)
                                      o2 == IF ev.free_src = 1 THEN [i \in (DOMAIN o1) \ {ev.src} |-> o1[i]] ELSE o1 IN
  Step(o2, <<s.d, s.d>>, <<ev.s40, ev.src40>>)
TrPermRelAcq == IsEv("perm.release_acquire") /\ LET ev == T[l] IN
  Step(objs, <<PS(ev).d>>, <<ev.s40>>)

PermNext == TrPermInit \/ TrPermFree \/ TrPermAdd \/ TrPermOvw \/ TrPermZero \/ TrPermExtract
            \/ TrPermExtractAdd \/ TrPermExtractOvw \/ TrPermPermute \/ TrPermCopy \/ TrPermRelAcq

-----------------------------------------------------------------------------
(* C03/C04/C05/C07: sponge objects                                         *)
StOf(o)  == <<o.s.d, o.count, o.mode>>
StEv(ev) == <<ev.s40, ev.count, ev.mode>>
SpSet(ev, o) == Put(ev.obj, [kind |-> ev.kind, s |-> o.s, count |-> o.count, mode |-> o.mode])

SpInitOf(ev) ==
  LET k == ev.kind  v == SpPar(k).v IN
  CASE k \in {"xof", "xofa"} ->
         (CASE ev.variant = "plain"  -> SpInitXof(v, SzOf(0))
            [] ev.variant = "fixed"  -> SpInitXof(v, ev.outlen)
            [] ev.variant = "custom" -> SpInitCustom(v, ev.name, ev.custom, ev.outlen))
    [] k \in {"hash", "hasha"} -> SpInitXof(v, SzOf(32))
    [] k = "prf" -> SpInitPrf(ev.key, IF ev.variant = "plain" THEN SzOf(0) ELSE ev.outlen)
    [] k \in {"kmac", "kmaca"} -> SpInitKmac(k, ev.key, ev.custom, ev.outlen)
    [] k \in {"kdf", "kdfa"}   -> SpInitKdf(k, ev.key, ev.custom, ev.outlen)
    [] k \in {"hmac", "hmaca"} -> SpInitHmac(k, ev.key)

\* init and re-init are the same function of the arguments: "re-initialising a used state
\* object is indistinguishable from initialising a fresh one"
TrSpInit == IsEv("sp.init") /\ LET ev == T[l]  o == SpInitOf(ev) IN
  Step(SpSet(ev, o), StOf(o), StEv(ev))
TrSpAbsorb == IsEv("sp.absorb") /\ LET ev == T[l]  o == SpAbsorb(SpPar(ev.kind), objs[ev.obj], ev["in"]) IN
  Step(SpSet(ev, o), StOf(o), StEv(ev))
TrSpSqueeze == IsEv("sp.squeeze") /\ LET ev == T[l]  r == SpSqueeze(SpPar(ev.kind), objs[ev.obj], ev.n) IN
  Step(SpSet(ev, r.o), <<StOf(r.o), r.out, 1>>, <<StEv(ev), ev.out, ev.guard>>)
TrSpHmacFinal == IsEv("sp.hmacfinal") /\ LET ev == T[l]  r == SpHmacFinal(ev.kind, objs[ev.obj], ev.key) IN
  Step(SpSet(ev, r.o), <<StOf(r.o), r.out, 1>>, <<StEv(ev), ev.out, ev.guard>>)
\* an absorb call of 2^32 bytes and more: the value is out of TLC's reach, the law is not - the result is a function of
\* the concatenated input (MC_Sponge: every partition), so one call and the same bytes in 1 GiB pieces agree
TrSpBig == IsEv("sp.big") /\ LET ev == T[l] IN Step(objs, <<ev.pieces>>, <<ev.one>>)
TrSpPad == IsEv("sp.pad") /\ LET ev == T[l]  o == SpPad(SpPar(ev.kind), objs[ev.obj]) IN
  Step(SpSet(ev, o), StOf(o), StEv(ev))
TrSpCopy == IsEv("sp.copy") /\ LET ev == T[l]  o == objs[ev.src] IN
  Step(SpSet(ev, o), StOf(o), StEv(ev))
TrSpFree == IsEv("sp.free") /\ LET ev == T[l] IN
  FreeStep(ev, Del(ev.obj), <<0, 0>>, <<ev.count, ev.mode>>)

\* one-shot functions against L1
TrOsHash == IsEv("os.hash") /\ LET ev == T[l]
      d == CASE ev.kind = "hash" -> Hash(ev["in"]) [] ev.kind = "hasha" -> Hasha(ev["in"])
             [] ev.kind = "xof" -> Xof(ev["in"], 32) [] ev.kind = "xofa" -> Xofa(ev["in"], 32) IN
  Step(objs, <<d, 1>>, <<ev.out, ev.guard>>)
TrOsPrf == IsEv("os.prf") /\ LET ev == T[l]  k == ev.kind  m == ev["in"] IN
  IF k = "prf_short" /\ (Len(m) > 16 \/ ev.n > 16)
  THEN Step(objs, <<-1, 1>>, <<ev.ret, ev.guard>>)     \* "reports an error instead of output"
  ELSE LET d == CASE k = "prf" -> Prf(ev.key, m, ev.n) [] k = "prf_fixed" -> PrfFixed(ev.key, m, ev.n)
                  [] k = "mac" -> Mac(ev.key, m) [] k = "prf_short" -> PrfShort(ev.key, m, ev.n) IN
       Step(objs, <<0, d, 1>>, <<ev.ret, ev.out, ev.guard>>)
Pow2(k) == 2^k
\* declared lengths 2^s + n with s >= 5 (or n > 16) exceed 16: an error, nothing written
TrOsPrfShortBig == IsEv("os.prf_short_big") /\ LET ev == T[l]
      big == ev.sin >= 5 \/ ev.sout >= 5 \/ (ev.sin = -1 /\ ev.nin > 16) \/ (ev.sout = -1 /\ ev.nout > 16)
              \/ (ev.sin \in 0..4 /\ Pow2(ev.sin) + ev.nin > 16) \/ (ev.sout \in 0..4 /\ Pow2(ev.sout) + ev.nout > 16) IN
  IF big THEN Step(objs, <<-1, 1, 1>>, <<ev.ret, ev.guard, ev.untouched>>)
  ELSE Step(objs, <<0, 1>>, <<ev.ret, ev.guard>>)
TrOsMacVerify == IsEv("os.mac_verify") /\ LET ev == T[l] IN
  Step(objs, <<IF Mac(ev.key, ev["in"]) = ev.tag THEN 0 ELSE -1>>, <<ev.ret>>)
TrOsKmac == IsEv("os.kmac") /\ LET ev == T[l] IN
  Step(objs, <<Kmac(SpPar(ev.kind).v, ev.key, ev["in"], ev.custom, SzOf(ev.n), ev.n), 1>>, <<ev.out, ev.guard>>)
TrOsKdf == IsEv("os.kdf") /\ LET ev == T[l] IN
  Step(objs, <<Kdf(SpPar(ev.kind).v, ev.key, ev.custom, SzOf(ev.n), ev.n), 1>>, <<ev.out, ev.guard>>)
TrOsHmac == IsEv("os.hmac") /\ LET ev == T[l] IN
  Step(objs, <<Hmac(SpPar(ev.kind).v, ev.key, ev["in"]), 1>>, <<ev.out, ev.guard>>)

SpongeNext == TrSpInit \/ TrSpAbsorb \/ TrSpBig \/ TrSpSqueeze \/ TrSpHmacFinal \/ TrSpPad \/ TrSpCopy \/ TrSpFree
              \/ TrOsHash \/ TrOsPrf \/ TrOsPrfShortBig \/ TrOsMacVerify \/ TrOsKmac \/ TrOsKdf \/ TrOsHmac

-----------------------------------------------------------------------------
(* C01/C02/C06: AEAD, SIV, ISAP one-shot events                            *)
SchemeEnc(sc, k, n, ad, m) ==
  CASE sc = "aead128"  -> AeadEnc("128", k, n, ad, m)
    [] sc = "aead128a" -> AeadEnc("128a", k, n, ad, m)
    [] sc = "aead80pq" -> AeadEnc("80pq", k, n, ad, m)
    [] sc = "siv128"   -> SivEnc("128", k, n, ad, m)
    [] sc = "siv128a"  -> SivEnc("128a", k, n, ad, m)
    [] sc = "siv80pq"  -> SivEnc("80pq", k, n, ad, m)
    [] sc = "isap128"  -> IsapEnc("128", k, n, ad, m)
    [] sc = "isap128a" -> IsapEnc("128a", k, n, ad, m)
    [] sc = "isap80pq" -> IsapEnc("80pq", k, n, ad, m)
SchemeDec(sc, k, n, ad, ct) ==
  CASE sc = "aead128"  -> AeadDec("128", k, n, ad, ct)
    [] sc = "aead128a" -> AeadDec("128a", k, n, ad, ct)
    [] sc = "aead80pq" -> AeadDec("80pq", k, n, ad, ct)
    [] sc = "siv128"   -> SivDec("128", k, n, ad, ct)
    [] sc = "siv128a"  -> SivDec("128a", k, n, ad, ct)
    [] sc = "siv80pq"  -> SivDec("80pq", k, n, ad, ct)
    [] sc = "isap128"  -> IsapDec("128", k, n, ad, ct)
    [] sc = "isap128a" -> IsapDec("128a", k, n, ad, ct)
    [] sc = "isap80pq" -> IsapDec("80pq", k, n, ad, ct)

\* every entry-point family must return exactly the one value of the specification
TrAeadEnc == IsEv("aead.enc") /\ LET ev == T[l]
      ct == SchemeEnc(ev.scheme, ev.k, ev.n, ev.ad, ev.m) IN
  Step(objs, {<<ct, Len(ev.m) + 16, 1>>},
             {<<ev.res[i].ct, ev.res[i].clen, ev.res[i].guard>> : i \in DOMAIN ev.res})

\* families whose failed decryption must leave an all-zero plaintext buffer (one-shot forms)
WipeFams == {"c", "masked", "cpp", "cppm"}

DecExpect(r, fam, n) ==   \* r = specification result [ok, m]
  IF r.ok THEN <<0, n, r.m, 1>>
  ELSE IF fam \in WipeFams THEN <<-1, "zero", 1>> ELSE <<-1, 1>>
DecObserved(x, ok) ==
  IF ok THEN <<x.ret, x.mlen, x.m, x.guard>>
  ELSE IF x.fam \in WipeFams THEN <<x.ret, IF x.allzero = 1 THEN "zero" ELSE x.m, x.guard>> ELSE <<x.ret, x.guard>>

TrAeadDec == IsEv("aead.dec") /\ LET ev == T[l] IN
  IF Len(ev.ct) < 16
  THEN Step(objs, {<<-1, 1>>}, {<<ev.res[i].ret, ev.res[i].guard>> : i \in DOMAIN ev.res})
  ELSE LET r == SchemeDec(ev.scheme, ev.k, ev.n, ev.ad, ev.ct)  n == Len(ev.ct) - 16 IN
       Step(objs, {<<ev.res[i].fam, DecExpect(r, ev.res[i].fam, n)>> : i \in DOMAIN ev.res},
                  {<<ev.res[i].fam, DecObserved(ev.res[i], r.ok)>> : i \in DOMAIN ev.res})

\* Round trip and forgeries.  The base ciphertext is checked against the specification; a
\* decryption input that differs from the base in key, nonce, associated data or ciphertext
\* must be rejected (assumption: no 2^-128 tag collision), an identical one accepted.
ForgeExpect(x) ==
  IF x.same = 1 THEN <<x.mut, x.fam, 0, 1, 1>>
  ELSE IF x.fam \in WipeFams /\ x.ctlen >= 16 THEN <<x.mut, x.fam, -1, "zero", 1>> ELSE <<x.mut, x.fam, -1, 1>>
ForgeObserved(x) ==
  IF x.same = 1 THEN <<x.mut, x.fam, x.ret, x.meq, x.guard>>
  ELSE IF x.fam \in WipeFams /\ x.ctlen >= 16
       THEN <<x.mut, x.fam, x.ret, IF x.allzero = 1 THEN "zero" ELSE "nonzero", x.guard>>
       ELSE <<x.mut, x.fam, x.ret, x.guard>>
TrAeadForge == IsEv("aead.forge") /\ LET ev == T[l]
      ct == SchemeEnc(ev.scheme, ev.k, ev.n, ev.ad, ev.m) IN
  Step(objs, <<ct, {ForgeExpect(ev.res[i]) : i \in DOMAIN ev.res}>>,
             <<ev.ct, {ForgeObserved(ev.res[i]) : i \in DOMAIN ev.res}>>)

AeadNext == TrAeadEnc \/ TrAeadDec \/ TrAeadForge

-----------------------------------------------------------------------------
(* C07/C14: incremental AEAD sessions                                      *)
IncPar(sc) == CASE sc = "aead128" -> AeadPar("128") [] sc = "aead128a" -> AeadPar("128a")
                [] sc = "aead80pq" -> AeadPar("80pq")
IncSt(o)    == <<o.s.d, o.key, o.nonce, o.posn>>
IncStEv(ev) == <<ev.s40, ev.key, ev.nonce, ev.posn>>
IncSet(ev, o) == Put(ev.obj, [kind |-> "inc", s |-> o.s, key |-> o.key, nonce |-> o.nonce, posn |-> o.posn])

TrIncInit == IsEv("inc.init") /\ LET ev == T[l]
      old == IF ev.re = 1 THEN objs[ev.obj] ELSE <<>>
      o == IncInit(IncPar(ev.scheme), old, ev.k, ev.n, ev.knull = 1, ev.nnull = 1, ev.nself = 1) IN
  \* the permutation state is not yet meaningful between init and start: compare key, nonce, posn
  Step(IncSet(ev, o), <<o.key, o.nonce, o.posn>>, <<ev.key, ev.nonce, ev.posn>>)
TrIncStart == IsEv("inc.start") /\ LET ev == T[l]  o == IncStart(IncPar(ev.scheme), objs[ev.obj], ev.ad) IN
  Step(IncSet(ev, o), IncSt(o), IncStEv(ev))
TrIncEnc == IsEv("inc.enc") /\ LET ev == T[l]  r == IncCrypt(IncPar(ev.scheme), objs[ev.obj], ev["in"], FALSE) IN
  Step(IncSet(ev, r.o), <<IncSt(r.o), r.out, 1>>, <<IncStEv(ev), ev.out, ev.guard>>)
TrIncDec == IsEv("inc.dec") /\ LET ev == T[l]  r == IncCrypt(IncPar(ev.scheme), objs[ev.obj], ev["in"], TRUE) IN
  Step(IncSet(ev, r.o), <<IncSt(r.o), r.out, 1>>, <<IncStEv(ev), ev.out, ev.guard>>)
TrIncEncFin == IsEv("inc.encfin") /\ LET ev == T[l]  r == IncFinal(IncPar(ev.scheme), objs[ev.obj]) IN
  Step(IncSet(ev, r.o), <<IncSt(r.o), r.tag, 1>>, <<IncStEv(ev), ev.out, ev.guard>>)
TrIncDecFin == IsEv("inc.decfin") /\ LET ev == T[l]  r == IncFinal(IncPar(ev.scheme), objs[ev.obj]) IN
  Step(IncSet(ev, r.o), <<IncSt(r.o), IF r.tag = ev.tag THEN 0 ELSE -1>>, <<IncStEv(ev), ev.ret>>)
TrIncFree == IsEv("inc.free") /\ LET ev == T[l] IN FreeStep(ev, Del(ev.obj), <<>>, <<>>)

TrNonceInc == IsEv("nonce.inc") /\ LET ev == T[l] IN
  Step(objs, <<NonceAdd(ev.n, ev.times), 1>>, <<ev.out, ev.guard>>)
TrNonceSetCounter == IsEv("nonce.set_counter") /\ LET ev == T[l] IN
  Step(objs, <<SetCounter(ev.ctr), 1>>, <<ev.out, ev.guard>>)

AeadIncNext == TrIncInit \/ TrIncStart \/ TrIncEnc \/ TrIncDec \/ TrIncEncFin \/ TrIncDecFin \/ TrIncFree
               \/ TrNonceInc \/ TrNonceSetCounter

(* C05/C07: HKDF objects and one-shots, PBKDF2                              *)
HmFor(kind) == IF kind \in {"hkdfa"} THEN "xofa" ELSE "xof"
HkSt(o)    == <<o.prk, o.out, o.counter, o.posn>>
HkStEv(ev) == <<ev.prk, ev.sout, ev.counter, ev.posn>>
HkSet(ev, o) == Put(ev.obj, [kind |-> ev.kind, prk |-> o.prk, out |-> o.out, counter |-> o.counter, posn |-> o.posn])

TrHkdfExtract == IsEv("hkdf.extract") /\ LET ev == T[l]  v == HmFor(ev.kind)
      o == HkdfObjExtract(LAMBDA k, d : Hmac(v, k, d), ev.key, ev.salt) IN
  \* the out field is not meaningful before the first block: compare prk, counter, posn
  Step(HkSet(ev, [o EXCEPT !.out = ev.sout]), <<o.prk, o.counter, o.posn>>, <<ev.prk, ev.counter, ev.posn>>)
TrHkdfExpand == IsEv("hkdf.expand") /\ LET ev == T[l]  v == HmFor(ev.kind)
      r == HkdfObjExpand(LAMBDA k, d : Hmac(v, k, d), objs[ev.obj], ev.info, ev.n) IN
  Step(HkSet(ev, r.o), <<HkSt(r.o), r.ret, r.out, 1>>, <<HkStEv(ev), ev.ret, ev.out, ev.guard>>)
\* positioning through the documented public fields: the object is whatever the fields now say
TrHkdfPoke == IsEv("hkdf.poke") /\ LET ev == T[l] IN
  Step(HkSet(ev, [prk |-> ev.prk, out |-> ev.sout, counter |-> ev.counter, posn |-> ev.posn]), <<>>, <<>>)
TrHkdfFree == IsEv("hkdf.free") /\ LET ev == T[l] IN FreeStep(ev, Del(ev.obj), <<>>, <<>>)

XorFold(s) == FoldLeft(LAMBDA acc, i : [acc EXCEPT ![((i - 1) % 32) + 1] = BX(@, s[i])], Zeros(32), Idx(Len(s)))
TrOsHkdf == IsEv("os.hkdf") /\ LET ev == T[l]  v == HmFor(ev.kind)
      r == Hkdf(LAMBDA k, d : Hmac(v, k, d), ev.key, ev.salt, ev.info, ev.n) IN
  IF r.ret = -1 THEN Step(objs, <<-1, 1, 1>>, <<ev.ret, ev.guard, ev.untouched>>)   \* refused: error and no output
  ELSE IF ev.n <= 600 THEN Step(objs, <<0, r.out, 1>>, <<ev.ret, ev.out, ev.guard>>)
  ELSE Step(objs, <<0, Slice(r.out, 0, 64), Slice(r.out, ev.n - 64, 64), XorFold(r.out), 1>>,
                  <<ev.ret, ev.head, ev.tail, ev.fold, ev.guard>>)

PbPrf(kind, pw, x) == IF kind = "pbkdf2" THEN CXof("xof", Bytes(<<80, 66, 75, 68, 70, 50>>), pw, SzOf(32), x, 32)
                      ELSE Hmac("xof", pw, x)
TrOsPbkdf2 == IsEv("os.pbkdf2") /\ LET ev == T[l] IN
  Step(objs, <<Pbkdf2(LAMBDA p, x : PbPrf(ev.kind, p, x), ev.pw, ev.salt, ev.count, ev.n), 1>>, <<ev.out, ev.guard>>)

\* selected blocks T_i of a long PBKDF2 output, each recomputed from its own index
TrOsPbkdf2Blocks == IsEv("os.pbkdf2_blocks") /\ LET ev == T[l] IN
  Step(objs, <<[j \in DOMAIN ev.blocks |-> Slice(Pbkdf2Block(LAMBDA p, x : PbPrf(ev.kind, p, x), ev.pw, ev.salt, ev.count, ev.blocks[j].i), 0, Len(ev.blocks[j].t))], 1>>,
             <<[j \in DOMAIN ev.blocks |-> ev.blocks[j].t], ev.guard>>)

KdfNext == TrOsPbkdf2Blocks \/ TrHkdfExtract \/ TrHkdfExpand \/ TrHkdfPoke \/ TrHkdfFree \/ TrOsHkdf \/ TrOsPbkdf2
(* C06: ISAP pre-computed key objects                                      *)
IsapV(sc) == CASE sc = "isap128" -> "128" [] sc = "isap128a" -> "128a" [] sc = "isap80pq" -> "80pq"
IkSet(ev, pk) == Put(ev.obj, [kind |-> "isapkey", ke |-> pk.ke, ka |-> pk.ka])
Pk(ev) == [ke |-> objs[ev.obj].ke, ka |-> objs[ev.obj].ka]

TrIsapKeyInit == IsEv("isapkey.init") /\ LET ev == T[l]  pk == IsapKeyExpand(IsapV(ev.scheme), ev.k) IN
  Step(IkSet(ev, pk), <<IsapSave(pk), 1>>, <<ev.saved, ev.save_same>>)
TrIsapKeyLoad == IsEv("isapkey.load") /\ LET ev == T[l]  pk == IsapLoad(ev["in"]) IN
  Step(IkSet(ev, pk), <<IsapSave(pk), 1>>, <<ev.saved, ev.save_same>>)
\* Save, Encrypt, Decrypt: UNCHANGED key - the raw object bytes must be bit-identical afterwards
TrIsapKeySave == IsEv("isapkey.save") /\ LET ev == T[l]  pk == Pk(ev) IN
  Step(objs, <<IsapSave(pk), IsapSave(pk), 1, 1, 1>>, <<ev.out, ev.saved, ev.raw_same, ev.save_same, ev.guard>>)
TrIsapKeyEnc == IsEv("isapkey.enc") /\ LET ev == T[l]  pk == Pk(ev)
      ct == IsapEncPk(IsapV(ev.scheme), pk, ev.n, ev.ad, ev["in"]) IN
  Step(objs, <<ct, Len(ev["in"]) + 16, IsapSave(pk), 1, 1, 1>>, <<ev.out, ev.clen, ev.saved, ev.raw_same, ev.save_same, ev.guard>>)
TrIsapKeyDec == IsEv("isapkey.dec") /\ LET ev == T[l]  pk == Pk(ev) IN
  IF Len(ev["in"]) < 16
  THEN Step(objs, <<-1, IsapSave(pk), 1, 1>>, <<ev.ret, ev.saved, ev.raw_same, ev.guard>>)
  ELSE LET r == IsapDecPk(IsapV(ev.scheme), pk, ev.n, ev.ad, ev["in"]) IN
       IF r.ok THEN Step(objs, <<0, Len(ev["in"]) - 16, r.m, IsapSave(pk), 1, 1>>, <<ev.ret, ev.mlen, ev.out, ev.saved, ev.raw_same, ev.guard>>)
       ELSE Step(objs, <<-1, 1, IsapSave(pk), 1, 1>>, <<ev.ret, ev.allzero, ev.saved, ev.raw_same, ev.guard>>)
TrIsapKeyFree == IsEv("isapkey.free") /\ LET ev == T[l] IN FreeStep(ev, Del(ev.obj), <<>>, <<>>)

IsapNext == TrIsapKeyInit \/ TrIsapKeyLoad \/ TrIsapKeySave \/ TrIsapKeyEnc \/ TrIsapKeyDec \/ TrIsapKeyFree
(* C15: SpongePRNG.  The trace carries the draws the wrapped system source *)
(* handed out during the call; the spec says how many there must be.       *)
PrSt(o)    == <<o.xof.s.d, o.xof.count, o.xof.mode, o.counter>>
PrStEv(ev) == <<ev.s40, ev.count, ev.mode, ev.counter>>
PrSet(ev, o) == Put(ev.obj, [kind |-> "prng", xof |-> o.xof, counter |-> o.counter])
PrO(ev) == [xof |-> objs[ev.obj].xof, counter |-> objs[ev.obj].counter]
NoDraw == [ok |-> 0, bytes |-> Zeros(32)]
DrawOf(ev, i) == IF Len(ev.draws) >= i THEN [ok |-> ev.draws[i].ok, bytes |-> ev.draws[i].bytes] ELSE NoDraw
DrawsWellFormed(ev) == \A i \in DOMAIN ev.draws : ev.draws[i].n = 32

TrPrngInit == IsEv("prng.init") /\ LET ev == T[l]  r == PrngInit(DrawOf(ev, 1)) IN
  Step(PrSet(ev, r.o), <<PrSt(r.o), IF r.ret # 0 THEN 1 ELSE 0, 1, TRUE>>, <<PrStEv(ev), ev.ret, Len(ev.draws), DrawsWellFormed(ev)>>)
TrPrngFetch == IsEv("prng.fetch") /\ LET ev == T[l]  r == PrngFetch(PrO(ev), ev.n, PrngLimit, DrawOf(ev, 1)) IN
  IF ev.n <= 600
  THEN Step(PrSet(ev, r.o), <<PrSt(r.o), r.out, r.used, 1>>, <<PrStEv(ev), ev.out, Len(ev.draws), ev.guard>>)
  ELSE Step(PrSet(ev, r.o), <<PrSt(r.o), Slice(r.out, 0, 64), Slice(r.out, ev.n - 64, 64), r.used, 1>>,
                            <<PrStEv(ev), ev.head, ev.tail, Len(ev.draws), ev.guard>>)
TrPrngFeed == IsEv("prng.feed") /\ LET ev == T[l]  o == PrngFeed(PrO(ev), ev["in"]) IN
  Step(PrSet(ev, o), <<PrSt(o), 0>>, <<PrStEv(ev), Len(ev.draws)>>)
TrPrngReseed == IsEv("prng.reseed") /\ LET ev == T[l]  r == PrngReseed(PrO(ev), DrawOf(ev, 1)) IN
  Step(PrSet(ev, r.o), <<PrSt(r.o), IF r.ret # 0 THEN 1 ELSE 0, 1>>, <<PrStEv(ev), ev.ret, Len(ev.draws)>>)
TrPrngPoke == IsEv("prng.poke") /\ LET ev == T[l] IN
  Step(PrSet(ev, [PrO(ev) EXCEPT !.counter = ev.counter]), <<>>, <<>>)
TrPrngSave == IsEv("prng.save") /\ LET ev == T[l]  r == PrngSave(PrO(ev), PrngLimit, DrawOf(ev, 1), ev.size, ev.wres) IN
  IF ev.size < 32 THEN Step(objs, <<PrSt(r.o), -1, 0, 0>>, <<PrStEv(ev), ev.ret, ev.writes, Len(ev.draws)>>)
  \* the last component: when the write was accepted, the memory (EEPROM or flash as modelled by the driver: a write
  \* without erase leaves old AND new) holds exactly the seed that was handed to it
  ELSE Step(PrSet(ev, r.o), <<PrSt(r.o), r.ret, r.written, 1, 0, r.used, IF ev.wres = 32 THEN r.written ELSE ev.stored>>,
                            <<PrStEv(ev), ev.ret, ev.written, ev.writes, ev.woff, Len(ev.draws), ev.stored>>)
TrPrngLoad == IsEv("prng.load") /\ LET ev == T[l]
      r == PrngLoad(PrO(ev), PrngLimit, <<DrawOf(ev, 1)>>, ev.size, ev.rres, ev.rbytes) IN
  IF ev.size < 32 THEN Step(objs, <<PrSt(r.o), -1, 0, 0>>, <<PrStEv(ev), ev.ret, ev.writes + ev.reads, Len(ev.draws)>>)
  ELSE Step(PrSet(ev, r.o), <<PrSt(r.o), r.ret, r.written, 1, 1, 1, IF ev.wres = 32 THEN r.written ELSE ev.stored>>,
                            <<PrStEv(ev), ev.ret, ev.written, ev.reads, ev.writes, Len(ev.draws), ev.stored>>)
\* documented conveniences for a NULL state: init 0, reseed 0, save/load -1, nothing drawn
TrPrngNull == IsEv("prng.null") /\ LET ev == T[l] IN
  Step(objs, <<0, 0, -1, -1, 0>>, <<ev.init, ev.reseed, ev.save, ev.load, Len(ev.draws)>>)
TrPrngGlobal == IsEv("prng.global") /\ LET ev == T[l]  r == RandomOneShot(DrawOf(ev, 1), ev.n) IN
  Step(objs, <<IF ev.via_fetch = 1 THEN -7 ELSE r.ret, r.out, 1, 1>>, <<ev.ret, ev.out, Len(ev.draws), ev.guard>>)
TrPrngFree == IsEv("prng.free") /\ LET ev == T[l] IN FreeStep(ev, Del(ev.obj), <<0>>, <<ev.counter>>)

\* flavour sysrng (the library's own Linux entropy back end on a scripted getrandom): every draw asked the system
\* at least once, reports exactly the health of that call, and hands on exactly its bytes (zeros if it failed)
TrSysDraws == IsEv("sys.draws") /\ LET ev == T[l] IN
  Step(objs, [i \in DOMAIN ev.draws |-> <<TRUE, ev.draws[i].sysok, IF ev.draws[i].sysok = 1 THEN ev.draws[i].sysbytes ELSE [j \in 1..Len(ev.draws[i].bytes) |-> 0]>>],
             [i \in DOMAIN ev.draws |-> <<ev.draws[i].syscalls >= 1, ev.draws[i].ok, ev.draws[i].bytes>>])
PrngNext == TrSysDraws \/ TrPrngInit \/ TrPrngFetch \/ TrPrngFeed \/ TrPrngReseed \/ TrPrngPoke \/ TrPrngSave \/ TrPrngLoad
            \/ TrPrngNull \/ TrPrngGlobal \/ TrPrngFree
(* C14/C17: C++ cipher objects                                             *)
CppSet(ev, o) == Put(ev.obj, [kind |-> "cpp", cls |-> o.cls, key |-> o.key, nonce |-> o.nonce])
CppO(ev) == [cls |-> objs[ev.obj].cls, key |-> objs[ev.obj].key, nonce |-> objs[ev.obj].nonce]

TrCppNew == IsEv("cpp.new") /\ LET ev == T[l]  o == CppNew(ev.cls, ev.how, ev.key, ev.len)  sc == CppScheme(ev.cls) IN
  Step(CppSet(ev, o), <<sc.klen, 16, 16>>, <<ev.key_size, ev.tag_size, ev.nonce_size>>)
TrCppSetKey == IsEv("cpp.set_key") /\ LET ev == T[l]  r == CppSetKey(CppO(ev), ev.key, ev.len, ev.keynull = 1) IN
  Step(CppSet(ev, r.o), <<r.ret>>, <<ev.ret>>)
TrCppSetNonce == IsEv("cpp.set_nonce") /\ LET ev == T[l] IN
  Step(CppSet(ev, [CppO(ev) EXCEPT !.nonce = SetNonce(ev.n)]), <<>>, <<>>)
TrCppSetCounter == IsEv("cpp.set_counter") /\ LET ev == T[l] IN
  Step(CppSet(ev, [CppO(ev) EXCEPT !.nonce = SetCounter(ev.ctr)]), <<>>, <<>>)
\* encryption uses the current nonce and then advances it by exactly one
TrCppEnc == IsEv("cpp.enc") /\ LET ev == T[l]  o == CppO(ev)  ct == CppEncrypt(o, ev.ad, ev.m) IN
  Step(CppSet(ev, [o EXCEPT !.nonce = NonceInc(o.nonce)]), <<Len(ev.m) + 16, ct, 1>>, <<ev.ret, ev.out, ev.guard>>)
\* successful decryption advances the nonce; a failed one leaves it unchanged
TrCppDec == IsEv("cpp.dec") /\ LET ev == T[l]  o == CppO(ev) IN
  IF Len(ev.ct) < 16 THEN Step(objs, <<-1, 1>>, <<ev.ret, ev.guard>>)
  ELSE LET r == CppDecrypt(o, ev.ad, ev.ct) IN
       IF r.ok THEN Step(CppSet(ev, [o EXCEPT !.nonce = NonceInc(o.nonce)]), <<Len(ev.ct) - 16, r.m, 1>>, <<ev.ret, ev.out, ev.guard>>)
       ELSE Step(objs, <<-1, 1, 1, 1>>, <<ev.ret, IF ev.form = "ptr" THEN ev.allzero ELSE 1, ev.empty_on_fail, ev.guard>>)
TrCppClear == IsEv("cpp.clear") /\ LET ev == T[l]  o == CppO(ev) IN
  FreeStep(ev, CppSet(ev, [o EXCEPT !.key = ZeroKeyOf(CppScheme(o.cls)), !.nonce = Zero16]), <<>>, <<>>)
TrCppSaveKey == IsEv("cpp.save_key") /\ LET ev == T[l] IN
  Step(objs, <<CppSavedKey(CppO(ev)), 1>>, <<ev.out, ev.guard>>)
TrCppRandomize == IsEv("cpp.randomize_key") /\ Step(objs, <<>>, <<>>)     \* value-preserving (checked by the following packets)
TrCppDel == IsEv("cpp.del") /\ LET ev == T[l] IN FreeStep(ev, Del(ev.obj), <<>>, <<>>)

MiscNext == TrCppNew \/ TrCppSetKey \/ TrCppSetNonce \/ TrCppSetCounter \/ TrCppEnc \/ TrCppDec \/ TrCppClear
            \/ TrCppSaveKey \/ TrCppRandomize \/ TrCppDel


-----------------------------------------------------------------------------
(* C17: header-only C++ hash/XOF classes, replayed as the sponge objects   *)
(* they wrap; C20: hex codec and byte-array helpers                        *)
CxhKind(cls) == CASE cls = "hash" -> "hash" [] cls = "hasha" -> "hasha"
                  [] cls \in {"xof", "xof16", "xof32", "xof64"} -> "xof"
                  [] cls \in {"xofa", "xofa16", "xofa32", "xofa64"} -> "xofa"
CxhLen(cls) == CASE cls \in {"hash", "hasha", "xof32", "xofa32"} -> 32 [] cls \in {"xof", "xofa"} -> 0
                 [] cls \in {"xof16", "xofa16"} -> 16 [] cls \in {"xof64", "xofa64"} -> 64
CxhSet(ev, o) == Put(ev.obj, [kind |-> CxhKind(ev.cls), s |-> o.s, count |-> o.count, mode |-> o.mode])
CxhPar(ev) == SpPar(CxhKind(ev.cls))

TrCxhNew == IsEv("cxh.new") /\ LET ev == T[l]  v == CxhPar(ev).v
      o == CASE ev.how = "default" -> SpInitXof(v, SzOf(CxhLen(ev.cls)))
             [] ev.how = "copy" -> objs[ev.src]
             [] OTHER -> SpInitCustom(v, ev.name, ev.custom, SzOf(CxhLen(ev.cls))) IN
  Step(CxhSet(ev, o), StOf(o), StEv(ev))
TrCxhAssign == IsEv("cxh.assign") /\ LET ev == T[l]  o == objs[ev.src] IN Step(CxhSet(ev, o), StOf(o), StEv(ev))
TrCxhReset == IsEv("cxh.reset") /\ LET ev == T[l]  o == SpInitXof(CxhPar(ev).v, SzOf(CxhLen(ev.cls))) IN
  Step(CxhSet(ev, o), StOf(o), StEv(ev))
TrCxhAbsorb == IsEv("cxh.absorb") /\ LET ev == T[l]
      o == IF ev.form = "cstrnull" THEN objs[ev.obj] ELSE SpAbsorb(CxhPar(ev), objs[ev.obj], ev["in"]) IN
  Step(CxhSet(ev, o), StOf(o), StEv(ev))
TrCxhSqueeze == IsEv("cxh.squeeze") /\ LET ev == T[l]  r == SpSqueeze(CxhPar(ev), objs[ev.obj], ev.n) IN
  Step(CxhSet(ev, r.o), <<StOf(r.o), r.out, 1>>, <<StEv(ev), ev.out, ev.guard>>)
TrCxhPad == IsEv("cxh.pad") /\ LET ev == T[l]  o == SpPad(CxhPar(ev), objs[ev.obj]) IN Step(CxhSet(ev, o), StOf(o), StEv(ev))
TrCxhDel == IsEv("cxh.del") /\ LET ev == T[l] IN FreeStep(ev, Del(ev.obj), <<>>, <<>>)
TrCxhDigest == IsEv("cxh.digest") /\ LET ev == T[l] IN
  Step(objs, <<IF ev.cls = "hash" THEN Hash(ev["in"]) ELSE Hasha(ev["in"]), 1>>, <<ev.out, ev.guard>>)

TrUtilFromHex == IsEv("util.from_hex") /\ LET ev == T[l] IN Step(objs, <<BytesFromHex(ev.str)>>, <<ev.out>>)
TrUtilToHex == IsEv("util.to_hex") /\ LET ev == T[l] IN Step(objs, <<HexEnc(ev["in"], ev.upper = 1)>>, <<ev.out>>)
TrUtilFromData == IsEv("util.from_data") /\ LET ev == T[l] IN Step(objs, <<ev["in"]>>, <<ev.out>>)
\* ascon_clean: the named range is zero afterwards, every other byte keeps its value
TrUtilClean == IsEv("util.clean") /\ LET ev == T[l]  d == ev["in"] IN
  Step(objs, <<[i \in 1..Len(d) |-> IF i > ev.off /\ i <= ev.off + ev.n THEN 0 ELSE d[i]], 1>>, <<ev.out, ev.guard>>)
TrHexTo == IsEv("hex.to") /\ LET ev == T[l]  r == BytesToHex(ev["in"], ev.space, ev.upper = 1) IN
  Step(objs, <<r.ret, r.out, 1, 1>>, <<ev.ret, ev.out, ev.guard, IF r.ret = -1 THEN 1 ELSE ev.tail_untouched>>)
TrHexFrom == IsEv("hex.from") /\ LET ev == T[l]  r == HexDecSpec(ev.str, ev.space) IN
  Step(objs, <<r.ret, r.out, 1>>, <<ev.ret, ev.out, ev.guard>>)

ExtraNext == TrCxhNew \/ TrCxhAssign \/ TrCxhReset \/ TrCxhAbsorb \/ TrCxhSqueeze \/ TrCxhPad \/ TrCxhDel \/ TrCxhDigest
             \/ TrUtilFromHex \/ TrUtilToHex \/ TrUtilFromData \/ TrHexTo \/ TrHexFrom \/ TrUtilClean

-----------------------------------------------------------------------------
(* C20: the replacement byte_array.  objs maps a variable to its abstract  *)
(* value [kind = "ba", v = sequence]; after every operation the observers  *)
(* of ALL live variables must equal the abstract values.                   *)
BaVal(id) == objs[id].v
BaSet(id, s) == Put(id, [kind |-> "ba", v |-> s])
\* last component: the container invariant size() <= capacity() of every live variable
BaAll(o) == {<<id, Len(o[id].v), IF Len(o[id].v) = 0 THEN 1 ELSE 0, o[id].v, 1>> : id \in {i \in DOMAIN o : o[i].kind = "ba"}}
BaObs(ev) == {<<ev.vars[i].id, ev.vars[i].size, ev.vars[i].empty, ev.vars[i].data, ev.vars[i].capok>> : i \in DOMAIN ev.vars}
BaStep(o, e, ob) == Step(o, <<BaAll(o), e>>, <<BaObs(T[l]), ob>>)

TrBaNew == IsEv("ba.new") /\ LET ev == T[l]
      s == CASE ev.how = "default" -> <<>> [] ev.how = "sized" -> AConstruct(ev.n, ev.value)
             [] ev.how = "sized0" -> AConstruct(ev.n, 0) [] ev.how = "copy" -> BaVal(ev.src) IN
  BaStep(BaSet(ev.obj, s), <<>>, <<>>)
TrBaAssign == IsEv("ba.assign") /\ LET ev == T[l] IN BaStep(BaSet(ev.obj, BaVal(ev.src)), <<>>, <<>>)
TrBaIndexSet == IsEv("ba.index_set") /\ LET ev == T[l] IN BaStep(BaSet(ev.obj, ASet(BaVal(ev.obj), ev.pos, ev.value)), <<>>, <<>>)
TrBaIndexGet == IsEv("ba.index_get") /\ LET ev == T[l] IN BaStep(objs, <<BaVal(ev.obj)[ev.pos + 1]>>, <<ev.ret>>)
TrBaDataSet == IsEv("ba.data_set") /\ LET ev == T[l] IN BaStep(BaSet(ev.obj, ASet(BaVal(ev.obj), ev.pos, ev.value)), <<>>, <<>>)
TrBaResize == IsEv("ba.resize") /\ LET ev == T[l] IN BaStep(BaSet(ev.obj, AResize(BaVal(ev.obj), ev.n)), <<>>, <<>>)
TrBaReserve == IsEv("ba.reserve") /\ LET ev == T[l] IN BaStep(objs, <<1>>, <<ev.cap_ok>>)
TrBaPush == IsEv("ba.push") /\ LET ev == T[l] IN BaStep(BaSet(ev.obj, APush(BaVal(ev.obj), ev.value)), <<>>, <<>>)
\* v.push_back(w[i]), w possibly v itself: the element is read before anything moves (value semantics)
TrBaPushFrom == IsEv("ba.push_from") /\ LET ev == T[l] IN BaStep(BaSet(ev.obj, APush(BaVal(ev.obj), BaVal(ev.src)[ev.pos + 1])), <<>>, <<>>)
TrBaPop == IsEv("ba.pop") /\ LET ev == T[l] IN BaStep(BaSet(ev.obj, APop(BaVal(ev.obj))), <<>>, <<>>)
TrBaClear == IsEv("ba.clear") /\ LET ev == T[l] IN BaStep(BaSet(ev.obj, <<>>), <<>>, <<>>)
B01(b) == IF b THEN 1 ELSE 0
TrBaCmp == IsEv("ba.cmp") /\ LET ev == T[l]  r == RelOps(ACmp(BaVal(ev.obj), BaVal(ev.other))) IN
  BaStep(objs, <<B01(r.eq), B01(r.ne), B01(r.lt), B01(r.le), B01(r.gt), B01(r.ge)>>, <<ev.eq, ev.ne, ev.lt, ev.le, ev.gt, ev.ge>>)
TrBaIter == IsEv("ba.iter") /\ LET ev == T[l] IN BaStep(objs, <<BaVal(ev.obj)>>, <<ev.out>>)
TrBaDel == IsEv("ba.del") /\ LET ev == T[l] IN BaStep(Del(ev.obj), <<>>, <<>>)
BaNext == TrBaNew \/ TrBaAssign \/ TrBaIndexSet \/ TrBaIndexGet \/ TrBaDataSet \/ TrBaResize \/ TrBaReserve
          \/ TrBaPush \/ TrBaPushFrom \/ TrBaPop \/ TrBaClear \/ TrBaCmp \/ TrBaIter \/ TrBaDel

-----------------------------------------------------------------------------
(* C10: masked words, states, keys - by value.  objs holds the represented *)
(* VALUE of every masked object; the event logs the value read back with   *)
(* the library's store function, the raw shares and the random tape.       *)
MwSet(id, v) == Put(id, [kind |-> "mword", v |-> v])
MwVal(id) == objs[id].v
\* on 64-bit masked back ends the raw shares must themselves represent the value
RawOK(ev, shares, v) == IF ev.w64 = 1 THEN WordToBytes(Unmask64(shares)) = v ELSE TRUE
\* refresh: with generic randomness every share word changes
RefreshOK(ev, before, after, n) ==
  IF Generic(ev.tape_used, n, ev.w64) THEN \A i \in DOMAIN before : AllSharesChanged(before[i], after[i]) ELSE TRUE

TrMwOp == IsEv("mw.op") /\ LET ev == T[l]  nm == ev.name  n == ev.n IN
  CASE nm = "zero" -> Step(MwSet(ev.obj, Zeros(8)), <<Zeros(8), TRUE>>, <<ev.val, RawOK(ev, ev.raw, ev.val)>>)
    [] nm = "load" -> Step(MwSet(ev.obj, ev.data), <<ev.data, TRUE>>, <<ev.val, RawOK(ev, ev.raw, ev.val)>>)
    [] nm = "load_partial" -> LET v == MwLoadPartial(ev.data) IN Step(MwSet(ev.obj, v), <<v, TRUE>>, <<ev.val, RawOK(ev, ev.raw, ev.val)>>)
    [] nm = "load_32" -> LET v == MwLoad32(ev.data, ev.data2) IN Step(MwSet(ev.obj, v), <<v, TRUE>>, <<ev.val, RawOK(ev, ev.raw, ev.val)>>)
    [] nm = "store" -> Step(objs, <<MwVal(ev.obj), MwVal(ev.obj), 1>>, <<ev.out, ev.val, ev.guard>>)
    [] nm = "store_partial" -> Step(objs, <<MwStorePartial(MwVal(ev.obj), ev.size), MwVal(ev.obj), 1>>, <<ev.out, ev.val, ev.guard>>)
    [] nm = "randomize" -> LET v == MwVal(ev.src) IN
         Step(MwSet(ev.obj, v), <<v, TRUE, TRUE>>, <<ev.val, RawOK(ev, ev.raw, ev.val), RefreshOK(ev, <<ev.raw_before>>, <<ev.raw>>, n)>>)
    [] nm = "xor" -> LET v == MwXor(MwVal(ev.obj), MwVal(ev.src)) IN
         Step(MwSet(ev.obj, v), <<v, IF ev.src = ev.obj THEN v ELSE MwVal(ev.src), TRUE>>, <<ev.val, ev.srcval, RawOK(ev, ev.raw, ev.val)>>)
    [] nm = "replace" -> LET v == MwReplace(MwVal(ev.obj), MwVal(ev.src), ev.size) IN
         Step(MwSet(ev.obj, v), <<v, MwVal(ev.src), TRUE>>, <<ev.val, ev.srcval, RawOK(ev, ev.raw, ev.val)>>)
    [] nm = "from" -> LET v == MwVal(ev.src) IN
         Step(MwSet(ev.obj, v), <<v, v, TRUE>>, <<ev.val, ev.srcval, RawOK(ev, ev.raw, ev.val)>>)
    [] nm = "pad" -> LET v == MwPad(MwVal(ev.obj), ev.size) IN Step(MwSet(ev.obj, v), <<v, TRUE>>, <<ev.val, RawOK(ev, ev.raw, ev.val)>>)
    [] nm = "separator" -> LET v == MwSeparator(MwVal(ev.obj)) IN Step(MwSet(ev.obj, v), <<v, TRUE>>, <<ev.val, RawOK(ev, ev.raw, ev.val)>>)

MsSet(id, v) == Put(id, [kind |-> "mstate", v |-> v])
StateRawOK(ev, v) == IF ev.w64 = 1 THEN \A i \in 1..5 : WordToBytes(Unmask64(ev.raw[i])) = SubSeq(v, 8 * i - 7, 8 * i) ELSE TRUE
TrMsOp == IsEv("ms.op") /\ LET ev == T[l]  nm == ev.name IN
  CASE nm = "load" -> Step(MsSet(ev.obj, ev.data), <<ev.data, TRUE>>, <<ev.val, StateRawOK(ev, ev.val)>>)
    [] nm = "randomize" -> LET v == MwVal(ev.obj) IN
         Step(objs, <<v, TRUE, TRUE>>, <<ev.val, StateRawOK(ev, ev.val), RefreshOK(ev, ev.raw_before, ev.raw, ev.n)>>)
    [] nm = "permute" -> LET v == Permute(MwVal(ev.obj), ev.r) IN
         Step(MsSet(ev.obj, v), <<v, TRUE>>, <<ev.val, StateRawOK(ev, ev.val)>>)
    [] nm = "to_x1" -> Step(objs, <<MwVal(ev.obj), MwVal(ev.obj)>>, <<ev.out, ev.val>>)
    [] nm = "from" -> LET v == MwVal(ev.src) IN Step(MsSet(ev.obj, v), <<v, v, TRUE>>, <<ev.val, ev.srcval, StateRawOK(ev, ev.val)>>)
    [] nm = "free" -> FreeStep(ev, Del(ev.obj), <<>>, <<>>)

MkSet(id, k) == Put(id, [kind |-> "mkey", v |-> k])
TrMkOp == IsEv("mk.op") /\ LET ev == T[l]  nm == ev.name IN
  CASE nm = "init" -> Step(MkSet(ev.obj, ev.key), <<ev.key, 1>>, <<ev.out, ev.guard>>)
    [] nm = "extract" -> Step(objs, <<MwVal(ev.obj), 1>>, <<ev.out, ev.guard>>)
    [] nm = "randomize" -> Step(objs, <<MwVal(ev.obj), 1, TRUE>>, <<ev.out, ev.guard, RefreshOK(ev, ev.raw_before, ev.raw, ev.shares)>>)
    [] nm = "free" -> FreeStep(ev, Del(ev.obj), <<>>, <<>>)
TrMkAead == IsEv("mk.aead") /\ LET ev == T[l]  v == CASE ev.scheme = "aead128" -> "128" [] ev.scheme = "aead128a" -> "128a" [] ev.scheme = "aead80pq" -> "80pq" IN
  \* encrypt, decrypt the result, decrypt a forgery - all with a const key object that must stay bit-identical
  Step(objs, <<AeadEnc(v, MwVal(ev.obj), ev.n, ev.ad, ev.m), Len(ev.m) + 16, 1, 0, ev.m, -1, 1>>,
             <<ev.out, ev.clen, ev.guard, ev.dec, ev.pt, ev.forged, ev.key_same>>)
\* C16: an object that threads only pass as a const argument has the same bytes after the threads as before
TrSharedConst == IsEv("shared.const") /\ LET ev == T[l] IN Step(objs, <<1>>, <<ev.same>>)
MaskedNext == TrMwOp \/ TrMsOp \/ TrMkOp \/ TrMkAead \/ TrSharedConst

-----------------------------------------------------------------------------
(* C19: the command-line tools.  Events are whole scenarios executed on    *)
(* the real binaries (tools/toolrun.py); the verdicts are the claims R, T, *)
(* F of SysTools.tla applied to what was observed: exit statuses,          *)
(* existence of the output file, equality of the round trip.               *)
CryptOverhead == 28 + 52 + 16          \* header, encrypted key block, tag
TrToolCrypt == IsEv("tool.crypt") /\ LET ev == T[l]  w == ev.what
      disturbed == ev.tripped = 1 /\ ev.fault.kind # "eintr" IN
  CASE w = "roundtrip" \/ (w \in {"fault_enc", "fault_dec"} /\ ~disturbed) ->
         \* R (and I: an interrupted call alone must not make the tool fail)
         Step(objs, <<0, 1, ev.size + CryptOverhead, 0, 1, 1>>, <<ev.exit_enc, ev.enc_exists, ev.enc_size, ev.exit_dec, ev.dec_exists, ev.same>>)
    [] w = "wrongkeyfile" ->
         \* two key files whose first lines differ: either the tool refuses the key file outright (nothing written),
         \* or what one encrypted the other must not decrypt
         Step(objs, <<TRUE>>, <<(ev.exit_enc # 0 /\ ev.enc_exists = 0) \/ (ev.exit_enc = 0 /\ ev.exit_dec # 0 /\ ev.dec_exists = 0)>>)
    [] w \in {"wrongpw", "flip", "trunc", "extend"} ->
         \* T: rejected with a non-zero exit status and no output file left behind
         Step(objs, <<0, TRUE, 0>>, <<ev.exit_enc, ev.exit_dec # 0, ev.dec_exists>>)
    [] w = "fault_enc" /\ disturbed ->
         \* F: non-zero exit and no (partial) output file
         Step(objs, <<TRUE, 0>>, <<ev.exit_enc # 0, ev.enc_exists>>)
    [] w = "fault_dec" /\ disturbed ->
         Step(objs, <<0, TRUE, 0>>, <<ev.exit_enc, ev.exit_dec # 0, ev.dec_exists>>)
\* -g: a fresh 40-character key file, or (source / write failure) a non-zero exit and no file
TrToolGenKey == IsEv("tool.genkey") /\ LET ev == T[l]  disturbed == ev.tripped = 1 /\ ev.fault.kind # "eintr" IN
  IF disturbed THEN Step(objs, <<TRUE, 0>>, <<ev.exit # 0, ev.exists>>)
  ELSE Step(objs, <<0, 1, 1>>, <<ev.exit, ev.exists, ev.wellformed>>)
TrToolSum == IsEv("tool.sum") /\ LET ev == T[l]  m == ev.content
      d == CASE ev.alg = "h" -> Hash(m) [] ev.alg = "a" -> Hasha(m) [] ev.alg = "x" -> Xof(m, 32) [] ev.alg = "y" -> Xofa(m, 32) IN
  Step(objs, <<d, 1, 0>>, <<ev.digest, ev.format_ok, ev.exit>>)
\* check mode: OK exactly for unmodified files; non-zero exit unless every line is good and OK
TrToolSumCheck == IsEv("tool.sumcheck") /\ LET ev == T[l]
      allgood == ev.nbad = 0 /\ \A i \in DOMAIN ev.files : ev.files[i].changed = 0 IN
  Step(objs, <<0, [i \in DOMAIN ev.files |-> ev.files[i].changed = 0], allgood>>,
             <<ev.gen_exit, [i \in DOMAIN ev.files |-> ev.files[i].reported = "OK"], ev.exit = 0>>)
\* a read error on a file: no digest is printed for it, it is not reported OK, the exit status is non-zero
TrToolSumFault == IsEv("tool.sumfault") /\ LET ev == T[l] IN
  IF ev.tripped = 1 THEN Step(objs, <<TRUE, 0, 0>>, <<ev.exit # 0, ev.printed, ev.reported_ok>>)
  ELSE Step(objs, <<0, 1>>, <<ev.exit, IF ev.check = 1 THEN ev.reported_ok ELSE ev.printed>>)
\* a read error on the checksum list itself: the tool must not exit 0 having looked at part of the list only
TrToolSumListFault == IsEv("tool.sumlistfault") /\ LET ev == T[l] IN
  IF ev.tripped = 1 THEN Step(objs, <<0, TRUE, 1>>, <<ev.gen_exit, ev.exit # 0, ev.stderr>>)
  ELSE Step(objs, <<0, 0, ev.nfiles>>, <<ev.gen_exit, ev.exit, ev.nok>>)
\* many arguments: the exit status is zero exactly when none of them failed, whatever their number
TrToolSumMany == IsEv("tool.summany") /\ LET ev == T[l] IN
  Step(objs, <<ev.nfail = 0, IF ev.check = 1 THEN ev.nfail + 2 ELSE 2>>, <<ev.exit = 0, ev.good_lines>>)
\* a failed write to standard output: lost digests or verdicts are not a success
TrToolSumWriteFault == IsEv("tool.sumwritefault") /\ LET ev == T[l] IN
  IF ev.tripped = 1 THEN Step(objs, <<0, TRUE, 1>>, <<ev.gen_exit, ev.exit # 0, ev.stderr>>)
  ELSE Step(objs, <<0, 0, 1>>, <<ev.gen_exit, ev.exit, ev.complete>>)
\* C12: any argument vector - no signal, no sanitizer report
TrToolArgs == IsEv("tool.args") /\ LET ev == T[l] IN Step(objs, <<0, 0>>, <<ev.signaled, ev.sanitizer>>)
ToolNext == TrToolCrypt \/ TrToolGenKey \/ TrToolSum \/ TrToolSumCheck \/ TrToolSumFault \/ TrToolSumListFault \/ TrToolSumMany \/ TrToolSumWriteFault \/ TrToolArgs

-----------------------------------------------------------------------------
(* C18: assembly back ends.  asm.permute: one call of a permutation entry  *)
(* point of some architecture (native x86-64 through a register-sentinel   *)
(* trampoline, native i386 in a freestanding 32-bit program, AVR5 on the   *)
(* generator's instruction interpreter, other architectures on the subset  *)
(* interpreters of tools/asmint.py): Permute of the specification, all     *)
(* callee-saved registers and the stack pointer restored, nothing written  *)
(* outside the state.  gen.diff: a checked-in file equals what its         *)
(* generator emits.  elf.stack: no object forces an executable stack.      *)
TrAsmPermute == IsEv("asm.permute") /\ LET ev == T[l] IN
  Step(objs, <<Permute(ev["in"], ev.r), 1, 1, 1>>, <<ev.out, ev.regs, ev.sp, ev.guard>>)
\* ascon_backend_free of an assembly back end: registers, stack pointer and all memory as the ABI requires
TrAsmFree == IsEv("asm.free") /\ LET ev == T[l] IN Step(objs, <<1, 1, 1>>, <<ev.regs, ev.sp, ev.guard>>)
TrAsmSelfTest == IsEv("asm.selftest") /\ LET ev == T[l] IN Step(objs, <<1>>, <<ev.ok>>)
TrGenDiff == IsEv("gen.diff") /\ LET ev == T[l] IN Step(objs, <<1, 1>>, <<ev.generated, ev.equal>>)
TrElfStack == IsEv("elf.stack") /\ LET ev == T[l] IN Step(objs, <<0>>, <<ev.exec>>)
\* C11: a keyed call with tainted secrets: no secret-dependent branch or address (memcheck),
\* and exactly the permutation calls the specification predicts from public lengths
TrCtCall == IsEv("ct.call") /\ LET ev == T[l]  p == Predicted(ev) IN
  Step(objs, <<1, 0, IF p = <<"unpredicted">> THEN ev.perm ELSE p, 1>>, <<ev.vg, ev.errors, ev.perm, ev.guard>>)
AsmNext == TrCtCall \/ TrAsmFree \/ TrAsmPermute \/ TrAsmSelfTest \/ TrGenDiff \/ TrElfStack

-----------------------------------------------------------------------------
Next == TrReset \/ PermNext \/ SpongeNext \/ AeadNext \/ AeadIncNext \/ KdfNext \/ IsapNext \/ PrngNext \/ MiscNext \/ ExtraNext \/ BaNext \/ MaskedNext \/ ToolNext \/ AsmNext

Spec == Init /\ [][Next]_vars

\* the binding: the implementation did what the specification says, at every call
Conforms == exp = obs
\* every event was consumed (a crash, abort or sanitizer exit truncates the trace)
Consumed == TLCGet("stats").diameter - 1 = Len(T)
=========================================================================
