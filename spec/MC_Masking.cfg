SPECIFICATION Spec
INVARIANT Inv
CHECK_DEADLOCK FALSE
CONSTANTS
  W = 4
