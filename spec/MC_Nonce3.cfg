SPECIFICATION Spec
INVARIANT Inv
CHECK_DEADLOCK FALSE
CONSTANTS
  B = 3
  D = 9
  MaxOps = 4
  PermOp <- SPermOp
  BX <- SBX
  BC <- SBC
  BBit <- SBBit
  BBase <- SBBase
  BHas <- SBHas
