SPECIFICATION Spec
INVARIANT Conforms
POSTCONDITION Consumed
CHECK_DEADLOCK FALSE
CONSTANTS
  PermOp <- CPermOp
  BX <- CBX
  BC <- CBC
  BBit <- CBBit
  BBase <- CBBase
  BHas <- CBHas
  RekeyOp <- IsapRekeyBits
  CapUnit = 16
  FixedResize = TRUE
  FixedCmp = TRUE
