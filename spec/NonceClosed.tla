---------------------------- MODULE NonceClosed ----------------------------
(* The closed (non-recursive) form of the big-endian ripple-carry increment *)
(* of a d-digit counter in base b: digit i advances exactly when all less   *)
(* significant digits (those after it) hold b - 1.  Shared text: MC_Nonce   *)
(* (TLC) checks it equal to the recursive ApiAead!IncAt on every value of   *)
(* the scaled domains; NonceInd (Apalache) proves it to be +1 modulo b^d    *)
(* for d = 16, b = 256, i.e. for all 2^128 nonces.                          *)
EXTENDS Integers

\* @type: (Int -> Int, Int, Int) => (Int -> Int);
IncClosedG(f, d, b) == [i \in 1..d |-> IF \A j \in 1..d : j > i => f[j] = b - 1
                                       THEN (IF f[i] = b - 1 THEN 0 ELSE f[i] + 1) ELSE f[i]]
=========================================================================
