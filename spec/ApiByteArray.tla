---------------------------- MODULE ApiByteArray ----------------------------
(* C20: the replacement ascon::byte_array of ASCON_NO_STL builds.          *)
(*                                                                         *)
(* Two models of the same interface:                                       *)
(*  - the ABSTRACT one: every variable holds its own sequence of bytes     *)
(*    (the value semantics of std::vector<unsigned char>);                 *)
(*  - the IMPLEMENTATION-SHAPED one (src/cplusplus/ascon-byte-array.cpp,   *)
(*    utility.h): variables point to reference-counted blocks              *)
(*    [ref, size, cap, data] that are shared by copies and detached        *)
(*    (copy-on-write) before a modification.                               *)
(* MC_ByteArray checks that the second refines the first under the mapping *)
(* contents(v) = data[1..size] of v's block.  The trace spec uses the      *)
(* abstract model as the oracle for the real class.                        *)
EXTENDS Integers, Sequences, FiniteSets

-----------------------------------------------------------------------------
(* abstract model: vals is a function  variable -> sequence               *)
AConstruct(n, b)    == [i \in 1..n |-> b]
AResize(s, n)       == IF n <= Len(s) THEN SubSeq(s, 1, n) ELSE s \o [i \in 1..(n - Len(s)) |-> 0]
APush(s, b)         == Append(s, b)
APop(s)             == IF Len(s) = 0 THEN s ELSE SubSeq(s, 1, Len(s) - 1)
ASet(s, pos, b)     == [s EXCEPT ![pos + 1] = b]           \* pos is 0-based as in C++
\* lexicographic comparison as std::vector: -1, 0, 1
RECURSIVE LexCmp(_, _, _)
LexCmp(a, b, i) == IF i > Len(a) /\ i > Len(b) THEN 0
                   ELSE IF i > Len(a) THEN -1
                   ELSE IF i > Len(b) THEN 1
                   ELSE IF a[i] < b[i] THEN -1 ELSE IF a[i] > b[i] THEN 1 ELSE LexCmp(a, b, i + 1)
ACmp(a, b) == LexCmp(a, b, 1)
\* the six relational operators from the three-way result
RelOps(c) == [eq |-> c = 0, ne |-> c # 0, lt |-> c < 0, le |-> c <= 0, gt |-> c > 0, ge |-> c >= 0]

-----------------------------------------------------------------------------
(* implementation-shaped model.  heap: block id -> [ref, size, cap, data]  *)
(* with Len(data) = cap (bytes beyond size are stale, not zero); ptr:      *)
(* variable -> block id or 0.  CapUnit is the allocation granularity (16   *)
(* in the code, scaled down in model checking).                            *)
CONSTANT CapUnit, FixedResize, FixedCmp     \* the two repairs, switchable for negative tests

Cap(x) == ((x + CapUnit - 1) \div CapUnit) * CapUnit
FreshId(heap) == CHOOSE i \in 1..(Cardinality(DOMAIN heap) + 1) : i \notin DOMAIN heap
Junk == 7                                    \* what uninitialised storage holds in the model

NewBlock(heap, cap, size, data) ==
  LET id == FreshId(heap) IN
  [id |-> id, heap |-> [i \in (DOMAIN heap) \cup {id} |->
                          IF i = id THEN [ref |-> 1, size |-> size, cap |-> cap,
                                          data |-> data \o [j \in 1..(cap - Len(data)) |-> Junk]]
                          ELSE heap[i]]]
Deref(heap, p) ==          \* drop one reference; free the block at zero
  IF p = 0 THEN heap
  ELSE IF heap[p].ref = 1 THEN [i \in (DOMAIN heap) \ {p} |-> heap[i]]
  ELSE [heap EXCEPT ![p].ref = @ - 1]

\* detach(capacity): always allocates a new private block holding a copy
IDetach(st, v, want) ==
  LET p    == st.ptr[v]
      size == IF p = 0 THEN 0 ELSE st.heap[p].size
      c0   == IF size > want THEN size ELSE want
      cap  == Cap(IF c0 = 0 THEN 1 ELSE c0)
      data == IF p = 0 THEN <<>> ELSE SubSeq(st.heap[p].data, 1, size)
      h1   == Deref(st.heap, p)
      nb   == NewBlock(h1, cap, size, data)
  IN [heap |-> nb.heap, ptr |-> [st.ptr EXCEPT ![v] = nb.id]]

IConstruct(st, v, n, b) ==
  LET nb == NewBlock(Deref(st.heap, st.ptr[v]), Cap(IF n = 0 THEN 1 ELSE n), n, [i \in 1..n |-> b])
  IN [heap |-> nb.heap, ptr |-> [st.ptr EXCEPT ![v] = nb.id]]
IDefault(st, v) == [heap |-> Deref(st.heap, st.ptr[v]), ptr |-> [st.ptr EXCEPT ![v] = 0]]
\* v := copy of w  (copy constructor / assignment share the block)
IAssign(st, v, w) ==
  IF st.ptr[v] = st.ptr[w] THEN st
  ELSE LET q  == st.ptr[w]
           h1 == IF q = 0 THEN st.heap ELSE [st.heap EXCEPT ![q].ref = @ + 1]
       IN [heap |-> Deref(h1, st.ptr[v]), ptr |-> [st.ptr EXCEPT ![v] = q]]
ISetIndex(st, v, pos, b) ==          \* operator[] detaches unconditionally
  LET s1 == IDetach(st, v, 0) IN [s1 EXCEPT !.heap[s1.ptr[v]].data[pos + 1] = b]
ISetData(st, v, pos, b) ==           \* data() detaches only a shared block
  LET s1 == IF st.heap[st.ptr[v]].ref > 1 THEN IDetach(st, v, 0) ELSE st
  IN [s1 EXCEPT !.heap[s1.ptr[v]].data[pos + 1] = b]
IReserve(st, v, n) ==
  IF st.ptr[v] = 0 \/ n > st.heap[st.ptr[v]].cap THEN IDetach(st, v, n) ELSE st
IResize(st, v, n) ==
  LET s1 == IReserve(st, v, n)
      \* the repair: a block shared with other variables is detached before it is changed
      s2 == IF FixedResize /\ s1.heap[s1.ptr[v]].ref > 1 THEN IDetach(s1, v, n) ELSE s1
      p  == s2.ptr[v]
      sz == s2.heap[p].size
  IN [s2 EXCEPT !.heap[p].data = [j \in 1..Len(@) |-> IF j > sz /\ j <= n THEN 0 ELSE @[j]],
                !.heap[p].size = n]
IPush(st, v, b) ==
  LET s1 == IF st.ptr[v] = 0 THEN IDetach(st, v, 0)
            ELSE IF st.heap[st.ptr[v]].size >= st.heap[st.ptr[v]].cap \/ st.heap[st.ptr[v]].ref > 1
                 THEN IDetach(st, v, st.heap[st.ptr[v]].size + 1) ELSE st
      p  == s1.ptr[v]
  IN [s1 EXCEPT !.heap[p].data[s1.heap[p].size + 1] = b, !.heap[p].size = @ + 1]
IPop(st, v) ==
  IF st.ptr[v] # 0 /\ st.heap[st.ptr[v]].size > 0
  THEN LET s1 == IDetach(st, v, 0) IN [s1 EXCEPT !.heap[s1.ptr[v]].size = @ - 1]
  ELSE st
IClear(st, v) == IDefault(st, v)
IContents(st, v) == IF st.ptr[v] = 0 THEN <<>> ELSE SubSeq(st.heap[st.ptr[v]].data, 1, st.heap[st.ptr[v]].size)
ICmp(st, v, w) ==
  LET p == st.ptr[v]  q == st.ptr[w] IN
  IF p = q THEN 0
  ELSE IF p = 0 THEN (IF st.heap[q].size > 0 THEN (IF FixedCmp THEN -1 ELSE 1) ELSE 0)
  ELSE IF q = 0 THEN (IF st.heap[p].size > 0 THEN (IF FixedCmp THEN 1 ELSE -1) ELSE 0)
  ELSE ACmp(IContents(st, v), IContents(st, w))
=========================================================================
