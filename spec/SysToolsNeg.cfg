SPECIFICATION Spec
INVARIANT Inv
CHECK_DEADLOCK FALSE
CONSTANTS
  MaxBlocks = 3
  WriteConvention = "nonzero"
  ReadConvention = "loop"
  ResumeConvention = "advance"
