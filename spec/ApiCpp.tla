------------------------------- MODULE ApiCpp -------------------------------
(* L2: the C++ cipher classes (ascon::aead128 ... isap80pq, *_masked) as   *)
(* the header documents them.  The object is (class, key, nonce); the      *)
(* nonce is private in the real class, so the trace spec tracks it here    *)
(* and judges every output by the C-level function of (key, nonce).        *)
(*   - default constructor: all-zero key and nonce;                        *)
(*   - key constructor: the given key (NULL = all-zero key); ISAP: a key   *)
(*     of key_size() bytes, or an 80-byte saved key, anything else = zero; *)
(*   - set_key: full-length key, or length 0 = the all-zero key, or (ISAP) *)
(*     a saved key; any other length returns false and changes nothing;    *)
(*   - set_nonce left-pads / truncates, set_counter = 8 zero bytes | BE64; *)
(*   - encrypt and successful decrypt advance the nonce by one; a failed   *)
(*     decrypt leaves it unchanged (C14).                                  *)
EXTENDS ApiAead, ApiIsap

CppScheme(cls) ==
  CASE cls \in {"aead128", "aead128_masked"} -> [fam |-> "aead", v |-> "128", klen |-> 16]
    [] cls \in {"aead128a", "aead128a_masked"} -> [fam |-> "aead", v |-> "128a", klen |-> 16]
    [] cls \in {"aead80pq", "aead80pq_masked"} -> [fam |-> "aead", v |-> "80pq", klen |-> 20]
    [] cls = "siv128"  -> [fam |-> "siv", v |-> "128", klen |-> 16]
    [] cls = "siv128a" -> [fam |-> "siv", v |-> "128a", klen |-> 16]
    [] cls = "siv80pq" -> [fam |-> "siv", v |-> "80pq", klen |-> 20]
    [] cls = "isap128"  -> [fam |-> "isap", v |-> "128", klen |-> 16]
    [] cls = "isap128a" -> [fam |-> "isap", v |-> "128a", klen |-> 16]
    [] cls = "isap80pq" -> [fam |-> "isap", v |-> "80pq", klen |-> 20]

RawKey(k) == [t |-> "raw", k |-> k]
ZeroKeyOf(sc) == RawKey(Zeros(sc.klen))

CppNew(cls, how, key, len) ==
  LET sc == CppScheme(cls)
      k  == IF how = "default" \/ how = "keynull" THEN ZeroKeyOf(sc)
            ELSE IF sc.fam # "isap" THEN RawKey(SubSeq(key, 1, sc.klen))
            ELSE IF len = sc.klen THEN RawKey(SubSeq(key, 1, sc.klen))
            ELSE IF len = 80 THEN [t |-> "pk", pk |-> IsapLoad(key)]
            ELSE ZeroKeyOf(sc)
  IN [cls |-> cls, key |-> k, nonce |-> Zero16]

\* result: [o, ret]
CppSetKey(o, key, len, keynull) ==
  LET sc == CppScheme(o.cls) IN
  IF len = sc.klen /\ ~keynull THEN [o |-> [o EXCEPT !.key = RawKey(SubSeq(key, 1, sc.klen))], ret |-> 1]
  ELSE IF sc.fam = "isap" /\ len = 80 /\ ~keynull THEN [o |-> [o EXCEPT !.key = [t |-> "pk", pk |-> IsapLoad(key)]], ret |-> 1]
  ELSE IF len = 0 THEN [o |-> [o EXCEPT !.key = ZeroKeyOf(sc)], ret |-> 1]
  ELSE [o |-> o, ret |-> 0]

CppEncrypt(o, ad, m) ==
  LET sc == CppScheme(o.cls)  N == Bytes(o.nonce) IN
  CASE sc.fam = "aead" -> AeadEnc(sc.v, o.key.k, N, ad, m)
    [] sc.fam = "siv"  -> SivEnc(sc.v, o.key.k, N, ad, m)
    [] sc.fam = "isap" -> IF o.key.t = "raw" THEN IsapEnc(sc.v, o.key.k, N, ad, m)
                          ELSE IsapEncPk(sc.v, o.key.pk, N, ad, m)
CppDecrypt(o, ad, ct) ==
  LET sc == CppScheme(o.cls)  N == Bytes(o.nonce) IN
  CASE sc.fam = "aead" -> AeadDec(sc.v, o.key.k, N, ad, ct)
    [] sc.fam = "siv"  -> SivDec(sc.v, o.key.k, N, ad, ct)
    [] sc.fam = "isap" -> IF o.key.t = "raw" THEN IsapDec(sc.v, o.key.k, N, ad, ct)
                          ELSE IsapDecPk(sc.v, o.key.pk, N, ad, ct)
CppSavedKey(o) ==
  LET sc == CppScheme(o.cls) IN
  IsapSave(IF o.key.t = "raw" THEN IsapKeyExpand(sc.v, o.key.k) ELSE o.key.pk)
=========================================================================
