------------------------------- MODULE MC_Prng -------------------------------
(* All sequences of up to MaxOps operations (init once, then fetch of      *)
(* several sizes, feed, explicit reseed) on the symbolic instance, with a  *)
(* reseed limit scaled to Limit bytes and every source draw either healthy *)
(* or failing:                                                             *)
(*  - forward security: after every action the state is                    *)
(*        p(Z(p(Z(p(Z(p(Z(x))))))))   (Z = zero the rate);                 *)
(*  - reseed: a fetch that starts with counter >= Limit consumes exactly   *)
(*    one draw before producing output, and no fetch below it consumes one;*)
(*  - sensitivity: every byte drawn from the source or fed by the caller   *)
(*    occurs in the state term afterwards (hence influences all later      *)
(*    output under a free permutation);                                    *)
(*  - status: init/reseed report the health of the draw they consumed.     *)
(* Determinism is by construction: the state is a term over draws and fed  *)
(* data only.                                                              *)
EXTENDS ApiPrng, Sym, TLC
CONSTANTS Limit, MaxOps, Sizes

VARIABLES o, ndraws, nfed, absorbed, lastRet, lastOk, lastUsed, lastNeed, nops
vars == <<o, ndraws, nfed, absorbed, lastRet, lastOk, lastUsed, lastNeed, nops>>

Draw(i, ok) == [ok |-> ok, bytes |-> Syms(<<"seed", i>>, 0, 32)]
Oks == {0, 1}

Init == \E ok \in Oks :
          LET r == PrngInit(Draw(1, ok)) IN
          /\ o = r.o /\ ndraws = 1 /\ nfed = 0 /\ absorbed = {<<"seed", 1>>}
          /\ lastRet = r.ret /\ lastOk = ok /\ lastUsed = 1 /\ lastNeed = 1 /\ nops = 0

Fetch(n, ok) ==
  /\ nops < MaxOps
  /\ LET need == IF o.counter >= Limit THEN 1 ELSE 0
         r == PrngFetch(o, n, Limit, Draw(ndraws + 1, ok)) IN
     /\ o' = r.o /\ lastUsed' = r.used /\ lastNeed' = need /\ ndraws' = ndraws + r.used
     /\ absorbed' = IF r.used = 1 THEN absorbed \cup {<<"seed", ndraws + 1>>} ELSE absorbed
  /\ lastRet' = 1 /\ lastOk' = 1 /\ nops' = nops + 1 /\ UNCHANGED nfed
Feed(n) ==
  /\ nops < MaxOps
  /\ o' = PrngFeed(o, Syms(<<"fed", nfed + 1>>, 0, n)) /\ nfed' = nfed + 1
  /\ absorbed' = IF n > 0 THEN absorbed \cup {<<"fed", nfed + 1>>} ELSE absorbed
  /\ lastRet' = 1 /\ lastOk' = 1 /\ lastUsed' = 0 /\ lastNeed' = 0 /\ nops' = nops + 1 /\ UNCHANGED ndraws
Reseed(ok) ==
  /\ nops < MaxOps
  /\ LET r == PrngReseed(o, Draw(ndraws + 1, ok)) IN
     o' = r.o /\ lastRet' = r.ret /\ lastOk' = ok
  /\ ndraws' = ndraws + 1 /\ absorbed' = absorbed \cup {<<"seed", ndraws + 1>>}
  /\ lastUsed' = 1 /\ lastNeed' = 1 /\ nops' = nops + 1 /\ UNCHANGED nfed
Next == (\E n \in Sizes, ok \in Oks : Fetch(n, ok)) \/ (\E n \in {0, 3, 8, 9} : Feed(n)) \/ (\E ok \in Oks : Reseed(ok))
Spec == Init /\ [][Next]_vars

-----------------------------------------------------------------------------
ZeroRated(S) == Ext(S, 0, 8) = Zeros(8)
PureP(S) == S.base # <<>> /\ S.base[1] = "P" /\ S.base[2] = 0 /\ S.d = SubSeq(SZ40, 1, 40) /\ S.z = {}
Arg(S) == S.base[3]                  \* the state the permutation was applied to
\* p(Z(p(Z(p(Z(p(Z(x)))))))): four times a pure permutation output whose argument has a zero rate
ForwardSecure ==
  LET p1 == o.xof.s IN PureP(p1) /\ ZeroRated(Arg(p1)) /\
  LET p2 == [Arg(p1) EXCEPT !.z = {}] IN PureP(p2) /\ ZeroRated(Arg(p2)) /\
  LET p3 == [Arg(p2) EXCEPT !.z = {}] IN PureP(p3) /\ ZeroRated(Arg(p3)) /\
  LET p4 == [Arg(p3) EXCEPT !.z = {}] IN PureP(p4) /\ ZeroRated(Arg(p4))
AlignedOK == o.xof.count = 0 /\ o.xof.mode = 0
\* input streams that occur in the chain of states below S
RECURSIVE StreamsOf(_)
StreamsOf(S) ==
  LET here == UNION {{x[2] : x \in {y \in S.d[i].a : y[1] = "i"}} : i \in 1..40}
  IN IF S.base = <<>> THEN here ELSE here \cup StreamsOf(S.base[3])
Sensitive == absorbed \subseteq StreamsOf(o.xof.s)
ReseedOK == lastUsed = lastNeed
StatusOK == lastRet = lastOk
CounterOK == o.counter < 2 * Limit
Inv == ForwardSecure /\ AlignedOK /\ Sensitive /\ ReseedOK /\ StatusOK /\ CounterOK
=========================================================================
