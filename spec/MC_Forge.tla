----------------------------- MODULE MC_Forge -----------------------------
(* Design-level check of "decryption inverts encryption and rejects every  *)
(* forgery" on the symbolic instance: for all three AEADs, SIV and ISAP    *)
(* variants, small length classes, and EVERY single-position substitution  *)
(* in ciphertext, tag, associated data, nonce and key, every truncation    *)
(* and a one-byte extension, the decryption operator accepts iff nothing   *)
(* was modified, and then returns the plaintext.  Because the permutation  *)
(* is a free symbol this shows that every input position reaches the tag   *)
(* computation (e.g. ciphertext bytes REPLACE the rate on decryption).     *)
(* TagPositions models ascon_aead_check_tag comparing all 16 positions;    *)
(* the negative configuration compares 15 and must be refuted.             *)
EXTENDS ApiIsap, Sym, TLC

CONSTANTS TagPositions, Families

VARIABLES fam, v, adlen, mlen, mut, acc, pt, done
vars == <<fam, v, adlen, mlen, mut, acc, pt, done>>

Klen == IF v = "80pq" THEN 20 ELSE 16
K0 == Syms("k", 0, Klen)
N0 == Syms("n", 0, 16)
A0 == Syms("a", 0, adlen)
M0 == Syms("m", 0, mlen)
Enc(k, n, a, m) == CASE fam = "aead" -> AeadEnc(v, k, n, a, m) [] fam = "siv" -> SivEnc(v, k, n, a, m)
                     [] fam = "isap" -> IsapEnc(v, k, n, a, m)
\* decryption with the tag comparison restricted to TagPositions
DecR(k, n, a, ct) ==
  LET len == Len(ct) - 16
      good == Enc(k, n, a, (CASE fam = "aead" -> AeadDec(v, k, n, a, ct).m [] fam = "siv" -> SivDec(v, k, n, a, ct).m
                              [] fam = "isap" -> IsapDec(v, k, n, a, ct).m))
  IN [ok |-> \A i \in TagPositions : good[len + i] = ct[len + i],
      m  |-> (CASE fam = "aead" -> AeadDec(v, k, n, a, ct).m [] fam = "siv" -> SivDec(v, k, n, a, ct).m
                [] fam = "isap" -> IsapDec(v, k, n, a, ct).m)]

X == [k |-> 0, a |-> {<<"i", "forged", 0>>}]       \* the substituted byte
Subst(s, i) == [s EXCEPT ![i] = X]

Muts == {<<"none", 0>>} \cup {<<"c", i>> : i \in 1..(mlen + 16)} \cup {<<"a", i>> : i \in 1..adlen}
        \cup {<<"n", i>> : i \in 1..16} \cup {<<"k", i>> : i \in 1..Klen}
        \cup {<<"trunc", j>> : j \in 16..(mlen + 15)} \cup {<<"ext", 1>>}

Init == /\ fam \in Families /\ v \in {"128", "128a", "80pq"}
        /\ adlen \in {0, 3, 9} /\ mlen \in {0, 5, 8, 17}
        /\ mut = <<"none", 0>> /\ acc = FALSE /\ pt = <<>> /\ done = FALSE

Decrypt(mu) ==
  /\ ~done
  /\ LET ct == Enc(K0, N0, A0, M0)
         k2 == IF mu[1] = "k" THEN Subst(K0, mu[2]) ELSE K0
         n2 == IF mu[1] = "n" THEN Subst(N0, mu[2]) ELSE N0
         a2 == IF mu[1] = "a" THEN Subst(A0, mu[2]) ELSE A0
         c2 == CASE mu[1] = "c" -> Subst(ct, mu[2])
                 [] mu[1] = "trunc" -> SubSeq(ct, 1, mu[2])
                 [] mu[1] = "ext" -> ct \o <<X>>
                 [] OTHER -> ct
         r  == DecR(k2, n2, a2, c2)
     IN acc' = r.ok /\ pt' = r.m
  /\ mut' = mu /\ done' = TRUE
  /\ UNCHANGED <<fam, v, adlen, mlen>>
Next == \E mu \in Muts : Decrypt(mu)
Spec == Init /\ [][Next]_vars

\* accepted exactly when nothing was modified; and then the plaintext comes back
AcceptIffAuthentic == done => (acc <=> mut[1] = "none")
RoundTrip == (done /\ mut[1] = "none") => pt = M0
Inv == AcceptIffAuthentic /\ RoundTrip
=========================================================================
