------------------------------ MODULE ApiMasked ------------------------------
(* C10: masked words, states and keys, specified BY VALUE.  A masked word   *)
(* with n shares represents  S[1] xor rotl(S[2], 11) xor rotl(S[3], 22) xor *)
(* rotl(S[4], 33)  (64-bit masked back ends; src/masking/ascon-masked-      *)
(* word.h).  Every operation is defined on the represented value; which     *)
(* shares an operation produces and how much randomness it draws is left    *)
(* free, except that re-randomising changes every share when the random     *)
(* values drawn are generic.  Words are 4 limbs of 16 bits (AsconWord).     *)
EXTENDS AsconPerm, SequencesExt

Unmask64(shares) ==
  FoldLeft(LAMBDA acc, i : WXor(acc, WRotR(shares[i], (64 - 11 * (i - 1)) % 64)), WZero, [i \in 1..Len(shares) |-> i])
WordToBytes(w) == WToBytes(w)
BytesToWord(b) == WFromBytes(b, 0)

\* by-value meaning of the word operations (values are 8-byte sequences)
MwLoadPartial(d)     == d \o [i \in 1..(8 - Len(d)) |-> 0]
MwLoad32(d1, d2)     == d1 \o d2
MwStorePartial(v, n) == SubSeq(v, 1, n)
MwXor(a, b)          == [i \in 1..8 |-> a[i] ^^ b[i]]
MwReplace(dst, src, n) == SubSeq(src, 1, n) \o SubSeq(dst, n + 1, 8)     \* top n bytes from src
MwPad(v, off)        == [v EXCEPT ![off + 1] = @ ^^ 128]
MwSeparator(v)       == [v EXCEPT ![8] = @ ^^ 1]

\* Randomness is "generic" for a refresh when, within every group of values drawn for one word
\* (n - 1 64-bit values, or 2(n - 1) 32-bit values on the 32-bit masked back end), every
\* non-empty subset has a non-zero XOR.  Share deltas of the scheme are XORs of such subsets
\* (rotated), so under generic randomness every share word must change.  The condition is
\* evaluated on the logged tape; for degenerate tapes only value preservation is demanded.
XorAll(ws) == FoldLeft(LAMBDA acc, w : WXor(acc, w), WZero, ws)
Low32(w) == <<0, 0, w[3], w[4]>>
GenericGroup(G) == \A sub \in (SUBSET (1..Len(G))) \ {{}} :
                      FoldLeft(LAMBDA acc, i : IF i \in sub THEN WXor(acc, G[i]) ELSE acc, WZero, [i \in 1..Len(G) |-> i]) # WZero
Generic(tape, n, w64) ==
  LET g  == IF w64 = 1 THEN n - 1 ELSE 2 * (n - 1)
      tp == IF w64 = 1 THEN tape ELSE [i \in 1..Len(tape) |-> Low32(tape[i])]
  IN /\ Len(tape) > 0 /\ Len(tape) % g = 0
     /\ \A k \in 0..((Len(tape) \div g) - 1) : GenericGroup(SubSeq(tp, k * g + 1, (k + 1) * g))
AllSharesChanged(before, after) == \A i \in 1..Len(before) : before[i] # after[i]
=========================================================================
