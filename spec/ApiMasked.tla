------------------------------ MODULE ApiMasked ------------------------------
(* C10: masked words, states and keys, specified BY VALUE.  A masked word   *)
(* with n shares represents  S[1] xor rotl(S[2], 11) xor rotl(S[3], 22) xor *)
(* rotl(S[4], 33)  (64-bit masked back ends; src/masking/ascon-masked-      *)
(* word.h).  Every operation is defined on the represented value; which     *)
(* shares an operation produces and how much randomness it draws is left    *)
(* free, except that re-randomising changes every share when the random     *)
(* values drawn are generic.  Words are 4 limbs of 16 bits (AsconWord).     *)
EXTENDS AsconPerm, SequencesExt

Unmask64(shares) ==
  FoldLeft(LAMBDA acc, i : WXor(acc, WRotR(shares[i], (64 - 11 * (i - 1)) % 64)), WZero, [i \in 1..Len(shares) |-> i])
WordToBytes(w) == WToBytes(w)
BytesToWord(b) == WFromBytes(b, 0)

\* by-value meaning of the word operations (values are 8-byte sequences)
MwLoadPartial(d)     == d \o [i \in 1..(8 - Len(d)) |-> 0]
MwLoad32(d1, d2)     == d1 \o d2
MwStorePartial(v, n) == SubSeq(v, 1, n)
MwXor(a, b)          == [i \in 1..8 |-> a[i] ^^ b[i]]
MwReplace(dst, src, n) == SubSeq(src, 1, n) \o SubSeq(dst, n + 1, 8)     \* top n bytes from src
MwPad(v, off)        == [v EXCEPT ![off + 1] = @ ^^ 128]
MwSeparator(v)       == [v EXCEPT ![8] = @ ^^ 1]

\* randomness is "generic" for a refresh with n shares when every value drawn is non-zero and
\* the XOR of each group of n - 1 consecutive values is non-zero: then every share must change
XorAll(ws) == FoldLeft(LAMBDA acc, w : WXor(acc, w), WZero, ws)
Generic(tape, n) ==
  /\ Len(tape) > 0 /\ Len(tape) % (n - 1) = 0
  /\ \A i \in 1..Len(tape) : tape[i] # WZero
  /\ \A g \in 0..((Len(tape) \div (n - 1)) - 1) : XorAll(SubSeq(tape, g * (n - 1) + 1, (g + 1) * (n - 1))) # WZero
AllSharesChanged(before, after) == \A i \in 1..Len(before) : before[i] # after[i]
=========================================================================
