---------------------------- MODULE ApiSponge ----------------------------
(* L2: the incremental sponge objects of the library, shaped like the code *)
(* (src/hash/ascon-xof.c, ascon-xofa.c, src/mac/ascon-prf.c and the thin   *)
(* HASH/HASHA/KMAC/KDF/HMAC layers on top).  An object is the projected C  *)
(* struct  [s : permutation state, count : 0..rate-1, mode : 0 | 1].       *)
(* Every operator is a pure function object -> object (and output), so the *)
(* same text is stepped by MC_Sponge (symbolic, exhaustive over call       *)
(* sequences) and by Trace (concrete, replaying the real library).         *)
(*                                                                         *)
(* Grain of the code that is kept here on purpose:                         *)
(*  - left-over block first, then full blocks, then stash the remainder;   *)
(*  - XOF and PRF squeeze LAZILY (permute before a block is produced),     *)
(*    XOFA squeezes EAGERLY (permute after a block has been consumed);     *)
(*  - absorbing after squeezing permutes and starts a new block            *)
(*    (ReAbsorb), pad() aligns to the next block boundary (XofPad).        *)
EXTENDS AsconModes

\* rin/rout: absorb and squeeze rates; sep: flip the last state bit when padding;
\* eager: XOFA style squeezing; fb: first round of the permutation between blocks
SpPar(kind) ==
  CASE kind \in {"xof", "hash", "kmac", "kdf", "hmac"}
         -> [rin |-> 8,  rout |-> 8,  sep |-> FALSE, eager |-> FALSE, fb |-> 0, v |-> "xof"]
    [] kind \in {"xofa", "hasha", "kmaca", "kdfa", "hmaca"}
         -> [rin |-> 8,  rout |-> 8,  sep |-> FALSE, eager |-> TRUE,  fb |-> 4, v |-> "xofa"]
    [] kind = "prf"
         -> [rin |-> 32, rout |-> 16, sep |-> TRUE,  eager |-> FALSE, fb |-> 0, v |-> "prf"]

SpObj(S) == [s |-> S, count |-> 0, mode |-> 0]

-----------------------------------------------------------------------------
SpAbsorb(par, o, data) ==
  LET \* ReAbsorb: "if we were squeezing output, then go back to the absorb phase"
      \* (all three implementations run the full p^12 here, XOFA included)
      o1 == IF o.mode = 1 THEN [s |-> P(o.s, 0), count |-> 0, mode |-> 0] ELSE o
      n  == Len(data)
  IN IF o1.count > 0 /\ par.rin - o1.count > n
     THEN [o1 EXCEPT !.s = XorIn(o1.s, o1.count, data), !.count = o1.count + n]
     ELSE LET temp == IF o1.count > 0 THEN par.rin - o1.count ELSE 0
              s1   == IF o1.count > 0
                      THEN P(XorIn(o1.s, o1.count, Slice(data, 0, temp)), par.fb) ELSE o1.s
              rest == Slice(data, temp, n - temp)
              s2   == AbsorbFull(s1, rest, par.rin, par.fb)
              t    == Rest(rest, par.rin)
          IN [o1 EXCEPT !.s = XorIn(s2, 0, t), !.count = Len(t)]

\* switch to the squeeze phase: pad (and separate), reset the counter
SpFinishAbsorb(par, o) ==
  IF o.mode = 1 THEN o ELSE
  LET s1 == Pad(o.s, o.count)
      s2 == IF par.sep THEN Sep(s1) ELSE s1
  IN [s |-> IF par.eager THEN P(s2, 0) ELSE s2, count |-> 0, mode |-> 1]

\* result: [o |-> object afterwards, out |-> n bytes]
SpSqueeze(par, o, n) ==
  LET o1 == SpFinishAbsorb(par, o)
      rate == par.rout
  IN IF o1.count > 0 /\ rate - o1.count > n
     THEN [o |-> [o1 EXCEPT !.count = o1.count + n], out |-> Ext(o1.s, o1.count, n)]
     ELSE
       LET temp == IF o1.count > 0 THEN rate - o1.count ELSE 0
           out1 == Ext(o1.s, o1.count, temp)
           \* eager: a completed left-over block is followed by the permutation at once
           s1   == IF par.eager /\ o1.count > 0 THEN P(o1.s, par.fb) ELSE o1.s
           m    == n - temp
           nb   == m \div rate
           tl   == m % rate
           r    == FoldLeft(LAMBDA acc, i :
                              IF par.eager
                              THEN [s |-> P(acc.s, par.fb), out |-> acc.out \o Ext(acc.s, 0, rate)]
                              ELSE LET s == P(acc.s, par.fb)
                                   IN [s |-> s, out |-> acc.out \o Ext(s, 0, rate)],
                            [s |-> s1, out |-> out1], Idx(nb))
           s3   == IF tl > 0 /\ ~par.eager THEN P(r.s, par.fb) ELSE r.s
       IN [o |-> [s |-> s3, count |-> tl, mode |-> 1], out |-> r.out \o Ext(s3, 0, tl)]

\* ascon_xof_pad: "absorb enough zeroes to reach the next block boundary"
SpPad(par, o) ==
  IF o.mode = 1 THEN SpAbsorb(par, o, <<>>)
  ELSE IF o.count # 0 THEN [o EXCEPT !.s = P(o.s, par.fb), !.count = 0] ELSE o

-----------------------------------------------------------------------------
(* initial objects, as the library documents them                          *)

SpInitXof(v, L)                 == SpObj(XofInitBlock(v, L, Zeros(32)))
SpInitCustom(v, name, custom, L) == SpObj(CXofInit(v, name, custom, L))
SpInitPrf(K, L)                 == SpObj(PrfInit(K, L))

KmacName == Bytes(<<75, 77, 65, 67>>)      \* "KMAC"
KdfName  == Bytes(<<75, 68, 70>>)          \* "KDF"

SpInitKmac(kind, K, custom, L) ==
  SpAbsorb(SpPar(kind), SpInitCustom(SpPar(kind).v, KmacName, custom, L), K)
SpInitKdf(kind, K, custom, L) ==
  SpAbsorb(SpPar(kind), SpInitCustom(SpPar(kind).v, KdfName, custom, L), K)

\* HMAC (RFC 2104) key block: K' = K zero-padded to 64 bytes, or H(K) zero-padded if |K| > 64
HmacKeyBlock(v, K, pad) ==
  LET K1 == IF Len(K) > 64 THEN HashV(v, K) ELSE K
  IN XorSeq(K1 \o Zeros(64 - Len(K1)), Rep(BC(pad), 64))

SpInitHmac(kind, K) ==
  SpAbsorb(SpPar(kind), SpInitXof(SpPar(kind).v, SzOf(32)), HmacKeyBlock(SpPar(kind).v, K, 54))

\* finalize: inner digest, then the outer hash over (K' xor opad) || inner; the object is
\* left as the outer hash after its finalisation
SpHmacFinal(kind, o, K) ==
  LET par   == SpPar(kind)
      inner == SpSqueeze(par, o, 32).out
      o2    == SpAbsorb(par, SpInitXof(par.v, SzOf(32)), HmacKeyBlock(par.v, K, 92) \o inner)
  IN SpSqueeze(par, o2, 32)

-----------------------------------------------------------------------------
(* L1 one-shot definitions of the keyed hash constructions (C04/C05)       *)
Hmac(v, K, M) == HashV(v, HmacKeyBlock(v, K, 92) \o HashV(v, HmacKeyBlock(v, K, 54) \o M))
Kmac(v, K, M, custom, L, n) == CXof(v, KmacName, custom, L, K \o M, n)
Kdf(v, K, custom, L, n)     == CXof(v, KdfName, custom, L, K, n)
=========================================================================
