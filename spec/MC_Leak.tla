------------------------------- MODULE MC_Leak -------------------------------
(* Design-level self-composition for C11 on the symbolic instance: the     *)
(* sequence of permutation calls (with their round numbers) made by the    *)
(* AEAD, SIV and PRF operators - read off the term structure of their      *)
(* outputs - is the same for two different sets of secrets (keys,          *)
(* plaintexts) with equal public lengths, and equals the prediction of     *)
(* ApiLeak from the public lengths alone.                                  *)
EXTENDS ApiIsap, ApiLeak, Sym, TLC

\* first rounds along the chain of permutations below a state term, oldest first
RECURSIVE ChainOf(_)
ChainOf(base) == IF base = <<>> THEN <<>> ELSE ChainOf(base[3].base) \o <<base[2]>>
\* the state term a byte was extracted from: its (single) "s" atom
BaseOfByte(b) == (CHOOSE x \in b.a : x[1] = "s")[2]
RoundsOfOutput(out) == ChainOf(BaseOfByte(out[Len(out)]))

VARIABLES fam, v, adlen, mlen
vars == <<fam, v, adlen, mlen>>
Init == /\ fam \in {"aead", "siv", "prf"} /\ v \in {"128", "128a", "80pq"}
        /\ adlen \in {0, 1, 7, 8, 9, 16, 17, 33} /\ mlen \in {0, 1, 7, 8, 15, 16, 17, 32, 33, 40}
Next == UNCHANGED vars
Spec == Init /\ [][Next]_vars

Klen == IF v = "80pq" THEN 20 ELSE 16
Run(tag) ==     \* the ciphertext||tag (or PRF output) under the secrets named by tag
  LET K == Syms(<<"k", tag>>, 0, Klen)  N == Syms("n", 0, 16)  A == Syms("a", 0, adlen)  M == Syms(<<"m", tag>>, 0, mlen) IN
  CASE fam = "aead" -> AeadEnc(v, K, N, A, M)
    [] fam = "siv"  -> SivEnc(v, K, N, A, M)
    [] fam = "prf"  -> Mac(Syms(<<"k", tag>>, 0, 16), M)
Par == AeadPar(v)
\* SIV: the tag carries the authentication pass, the last ciphertext byte the keystream pass
SivChains(out) == <<ChainOf(BaseOfByte(out[Len(out)])), IF mlen = 0 THEN <<>> ELSE ChainOf(BaseOfByte(out[mlen]))>>
SecretIndependent ==
  IF fam = "siv" THEN SivChains(Run(1)) = SivChains(Run(2)) ELSE RoundsOfOutput(Run(1)) = RoundsOfOutput(Run(2))
MatchesPrediction ==
  CASE fam = "aead" -> RoundsOfOutput(Run(1)) = AeadRounds(Par.rate, Par.b, adlen, mlen)
    [] fam = "siv"  -> /\ SivChains(Run(1))[1] = SivAuth(Par.rate, Par.b, adlen, mlen)
                       /\ (mlen > 0 => SivChains(Run(1))[2] = SivStreamRounds(Par.rate, Par.b, mlen))
    [] fam = "prf"  -> RoundsOfOutput(Run(1)) = PrfRounds(mlen, 16)
Inv == SecretIndependent /\ MatchesPrediction
=========================================================================
