------------------------------- MODULE Sym -------------------------------
(* The symbolic instance of the algebra (see AsconAlg.tla): the            *)
(* permutation is a free function symbol and input bytes are symbols       *)
(* tagged with their stream and position.  A byte is [k, a]: an integer    *)
(* constant XOR the set a of atoms (XOR is symmetric difference, so        *)
(* x XOR x = 0 and decrypt(encrypt(m)) = m hold syntactically).  Atoms:    *)
(*    <<"i", stream, pos>>    an input byte                                *)
(*    <<"s", base, i>>        byte i of the permuted term base             *)
(*    <<"bit", b, j>>         bit j of the non-constant byte b, as 0x80/0  *)
(* With a free permutation, two states or outputs are equal terms iff they *)
(* are the same sponge computation on the same bytes at the same offsets.  *)
EXTENDS Naturals, Sequences, FiniteSets, Bitwise

SBC(x)    == [k |-> x, a |-> {}]
SBX(p, q) == [k |-> p.k ^^ q.k, a |-> (p.a \ q.a) \cup (q.a \ p.a)]
SBBit(b, j) == IF b.a = {} THEN SBC(IF (b.k \div (2 ^ j)) % 2 = 1 THEN 128 ELSE 0)
               ELSE [k |-> 0, a |-> {<<"bit", b, j>>}]
SBBase(base, i) == [k |-> 0, a |-> {<<"s", base, i>>}]
SBHas(b, base, i) == <<"s", base, i>> \in b.a
SZ40 == [i \in 1..40 |-> SBC(0)]
\* A state whose 40 explicit bytes are "byte i of the term B" (XOR something) is the state
\* [base = B, d = something]: fold it back, so that saving a state as bytes and loading it
\* again yields the same term (and nesting stays linear).
FoldState(S) ==
  IF S.base # <<>> THEN S ELSE
  LET c == {x \in S.d[1].a : x[1] = "s" /\ x[3] = 1} IN
  IF c = {} THEN S ELSE
  LET B == (CHOOSE x \in c : TRUE)[2] IN
  IF \A i \in 1..40 : <<"s", B, i>> \in S.d[i].a
  THEN [base |-> B, d |-> SubSeq([i \in 1..40 |-> [k |-> S.d[i].k, a |-> S.d[i].a \ {<<"s", B, i>>}]], 1, 40), z |-> {}]
  ELSE S
SPermOp(S, first) == [base |-> <<"P", first, FoldState(S)>>, d |-> SubSeq(SZ40, 1, 40), z |-> {}]

\* free re-keying function for ISAP models (see ApiIsap.RekeyOp)
SRekeyOp(par, S0, Y) == [base |-> <<"RK", FoldState(S0), Y>>, d |-> SubSeq(SZ40, 1, 40), z |-> {}]

\* n input symbols of a stream, positions from+1 .. from+n
Syms(stream, from, n) == SubSeq([i \in 1..(from + n) |-> [k |-> 0, a |-> {<<"i", stream, i>>}]], from + 1, from + n)
=========================================================================
