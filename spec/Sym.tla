------------------------------- MODULE Sym -------------------------------
(* The symbolic instance of the algebra (see AsconAlg.tla): the            *)
(* permutation is a free function symbol and input bytes are symbols       *)
(* tagged with their stream and position.  A byte is [k, a]: an integer    *)
(* constant XOR the set a of atoms (XOR is symmetric difference, so        *)
(* x XOR x = 0 and decrypt(encrypt(m)) = m hold syntactically).  Atoms:    *)
(*    <<"i", stream, pos>>    an input byte                                *)
(*    <<"s", base, i>>        byte i of the permuted term base             *)
(*    <<"bit", b, j>>         bit j of the non-constant byte b, as 0x80/0  *)
(* With a free permutation, two states or outputs are equal terms iff they *)
(* are the same sponge computation on the same bytes at the same offsets.  *)
EXTENDS Naturals, Sequences, FiniteSets, Bitwise

SBC(x)    == [k |-> x, a |-> {}]
SBX(p, q) == [k |-> p.k ^^ q.k, a |-> (p.a \ q.a) \cup (q.a \ p.a)]
SBBit(b, j) == IF b.a = {} THEN SBC(IF (b.k \div (2 ^ j)) % 2 = 1 THEN 128 ELSE 0)
               ELSE [k |-> 0, a |-> {<<"bit", b, j>>}]
SBBase(base, i) == [k |-> 0, a |-> {<<"s", base, i>>}]
SZ40 == [i \in 1..40 |-> SBC(0)]
SPermOp(S, first) == [base |-> <<"P", first, S>>, d |-> SubSeq(SZ40, 1, 40)]

\* n input symbols of a stream, positions from+1 .. from+n
Syms(stream, from, n) == SubSeq([i \in 1..(from + n) |-> [k |-> 0, a |-> {<<"i", stream, i>>}]], from + 1, from + n)
=========================================================================
