------------------------------ MODULE SysThreads ------------------------------
(* L3 (C16): N threads call library functions on their own objects and on   *)
(* shared read-only objects.  A library call is not atomic: it is modelled  *)
(* at the grain of its internal steps                                       *)
(*     Begin  : read the object and the inputs into working storage,        *)
(*     Compute: transform the working storage (one step per "block"),       *)
(*     End    : write the object back and return the output.                *)
(* In the library as designed the working storage is the caller's stack     *)
(* (one per thread).  HiddenGlobal = TRUE models a function that keeps its  *)
(* working storage in a static buffer shared by all threads - the kind of   *)
(* hidden mutable state the property forbids; TLC must find the schedule    *)
(* in which two threads corrupt each other (negative instance).             *)
(* Values are abstract: F is an injective step function on naturals.        *)
EXTENDS Naturals, Sequences, TLC
CONSTANTS Threads, Calls, Blocks, HiddenGlobal

F(x, in) == (x * 7 + in + 1) % 1009            \* stands for "permute after absorbing in"
RECURSIVE Iter(_, _, _)
Iter(x, in, n) == IF n = 0 THEN x ELSE Iter(F(x, in), in, n - 1)       \* the sequential result of one call

VARIABLES obj,      \* per-thread private object value
          work,     \* working storage: per thread (stack) or the single static buffer
          pc, left, ncall, input, shared, outs
vars == <<obj, work, pc, left, ncall, input, shared, outs>>
Slot(t) == IF HiddenGlobal THEN "static" ELSE t
\* the (public) input of thread t's k-th call: distinct per thread and call
InputOf(t, k) == 10 * (IF t = CHOOSE u \in Threads : TRUE THEN 1 ELSE 2) + (k - 1)

Init == /\ obj = [t \in Threads |-> 0] /\ work = [s \in (IF HiddenGlobal THEN {"static"} ELSE Threads) |-> 0]
        /\ pc = [t \in Threads |-> "idle"] /\ left = [t \in Threads |-> 0] /\ ncall = [t \in Threads |-> 0]
        /\ input = [t \in Threads |-> 0] /\ shared = 5 /\ outs = [t \in Threads |-> <<>>]

Begin(t) == /\ pc[t] = "idle" /\ ncall[t] < Calls
            /\ input' = [input EXCEPT ![t] = InputOf(t, ncall[t] + 1)]
            /\ work' = [work EXCEPT ![Slot(t)] = obj[t] + shared]         \* reads the shared constant object
            /\ left' = [left EXCEPT ![t] = Blocks] /\ pc' = [pc EXCEPT ![t] = "busy"]
            /\ UNCHANGED <<obj, ncall, shared, outs>>
Compute(t) == /\ pc[t] = "busy" /\ left[t] > 0
              /\ work' = [work EXCEPT ![Slot(t)] = F(@, input[t])]
              /\ left' = [left EXCEPT ![t] = @ - 1]
              /\ UNCHANGED <<obj, pc, ncall, input, shared, outs>>
End(t) == /\ pc[t] = "busy" /\ left[t] = 0
          /\ obj' = [obj EXCEPT ![t] = work[Slot(t)]]
          /\ outs' = [outs EXCEPT ![t] = Append(@, work[Slot(t)])]
          /\ pc' = [pc EXCEPT ![t] = "idle"] /\ ncall' = [ncall EXCEPT ![t] = @ + 1]
          /\ UNCHANGED <<work, left, input, shared>>
Next == \E t \in Threads : Begin(t) \/ Compute(t) \/ End(t)
Spec == Init /\ [][Next]_vars

\* what thread t's k-th call returns when the thread runs alone
RECURSIVE SeqOut(_, _)
SeqOut(t, k) == IF k = 0 THEN 0 ELSE Iter(SeqOut(t, k - 1) + 5, InputOf(t, k), Blocks)
\* C16: every thread's outputs equal its sequential outputs, under every interleaving;
\* the shared constant is never written
SameAsSequential == \A t \in Threads : \A k \in 1..Len(outs[t]) : outs[t][k] = SeqOut(t, k)
SharedConstant == shared = 5
Inv == SameAsSequential /\ SharedConstant
=========================================================================
