---------------------------- MODULE NonceInd ----------------------------
(* C14, unbounded: the closed form of the ripple-carry increment is +1    *)
(* modulo 256^16 for EVERY 16-byte nonce, and a session's stored nonce is  *)
(* N + (number of successful packets) modulo 2^128 - an inductive          *)
(* invariant discharged by Apalache (SMT), not an enumeration.             *)
(* IncClosed is the non-recursive form of ApiAead!IncAt (Apalache has no   *)
(* recursive operators), taken from NonceClosed.tla; MC_Nonce checks it    *)
(* equal to IncAt with TLC on every value of the scaled domains.           *)
EXTENDS Integers, NonceClosed

D == 16
B == 256
\* 256^16 and the digit weights, as literals (Apalache has no constant folding of ^ beyond Int range)
W(i) == IF i = 16 THEN 1 ELSE IF i = 15 THEN 256 ELSE IF i = 14 THEN 65536 ELSE IF i = 13 THEN 16777216
        ELSE IF i = 12 THEN 4294967296 ELSE IF i = 11 THEN 1099511627776 ELSE IF i = 10 THEN 281474976710656
        ELSE IF i = 9 THEN 72057594037927936 ELSE IF i = 8 THEN 18446744073709551616
        ELSE IF i = 7 THEN 4722366482869645213696 ELSE IF i = 6 THEN 1208925819614629174706176
        ELSE IF i = 5 THEN 309485009821345068724781056 ELSE IF i = 4 THEN 79228162514264337593543950336
        ELSE IF i = 3 THEN 20282409603651670423947251286016 ELSE IF i = 2 THEN 5192296858534827628530496329220096
        ELSE 1329227995784915872903807060280344576
M == 340282366920938463463374607431768211456

VARIABLES
  \* @type: Int -> Int;
  n,
  \* @type: Int;
  v0,
  \* @type: Int;
  good,
  \* @type: Int;
  wraps

\* @type: (Int -> Int) => Int;
Val(f) == f[1] * W(1) + f[2] * W(2) + f[3] * W(3) + f[4] * W(4) + f[5] * W(5) + f[6] * W(6) + f[7] * W(7) + f[8] * W(8)
        + f[9] * W(9) + f[10] * W(10) + f[11] * W(11) + f[12] * W(12) + f[13] * W(13) + f[14] * W(14) + f[15] * W(15) + f[16] * W(16)

\* @type: (Int -> Int) => (Int -> Int);
IncClosed(f) == IncClosedG(f, D, B)

TypeOK == n \in [1..D -> 0..(B - 1)] /\ v0 \in 0..(M - 1) /\ good \in Nat /\ wraps \in Nat
\* modulo-free form of Val(n) = (v0 + good) % M: wraps (a ghost) counts the passages through all-255
IndInv == TypeOK /\ Val(n) + wraps * M = v0 + good

\* the one-step lemma without modulo: +1, wrapping from all-255 to all-zero
StepLemma == Val(IncClosed(n)) = IF Val(n) = M - 1 THEN 0 ELSE Val(n) + 1

\* negative control: an increment that saturates instead of wrapping at 2^128 must be refuted
\* @type: (Int -> Int) => (Int -> Int);
IncSaturating(f) == IF \A j \in 1..D : f[j] = B - 1 THEN f ELSE IncClosed(f)
BadLemma == Val(IncSaturating(n)) = IF Val(n) = M - 1 THEN 0 ELSE Val(n) + 1

Init == n \in [1..D -> 0..(B - 1)] /\ v0 = Val(n) /\ good = 0 /\ wraps = 0
\* a successful packet advances the stored nonce; a failed decryption leaves it alone
Success == n' = IncClosed(n) /\ good' = good + 1 /\ wraps' = (IF Val(n) = M - 1 THEN wraps + 1 ELSE wraps) /\ UNCHANGED v0
Failure == UNCHANGED <<n, v0, good, wraps>>
Next == Success \/ Failure
=========================================================================
