SPECIFICATION Spec
INVARIANT Inv
CHECK_DEADLOCK FALSE
CONSTANTS
  Limit = 24
  MaxOps = 3
  Sizes = {0, 1, 8, 9, 23, 24, 25}
  PermOp <- SPermOp
  BX <- SBX
  BC <- SBC
  BBit <- SBBit
  BBase <- SBBase
  BHas <- SBHas
