SPECIFICATION Spec
INVARIANT Inv
CHECK_DEADLOCK FALSE
CONSTANTS
  MaxBlocks = 3
  WriteConvention = "count"
  ReadConvention = "loop"
  ResumeConvention = "restart"
