---------------------------- MODULE AsconAlg ----------------------------
(* The byte/state algebra every higher layer is written over.              *)
(*                                                                         *)
(* Two instantiations exist (see Conc.tla and Sym.tla):                    *)
(*   concrete : a byte is an integer 0..255, PermOp is the real ASCON      *)
(*              permutation of AsconPerm.tla  -> trace validation, KATs    *)
(*   symbolic : a byte is a term (constant XOR set of atoms), PermOp is a  *)
(*              free function symbol -> exhaustive model checking, where   *)
(*              equality of terms means "the same sponge computation".     *)
(*                                                                         *)
(* A permutation state is a record [base, d, z].  d is a 40-tuple of       *)
(* bytes; base is <<>> and z is {} in every concrete state.  In the        *)
(* symbolic instance base is the term <<"P", firstRound, previousState>>   *)
(* and the value of state byte i is d[i] if i \in z (the byte has been     *)
(* overwritten) and byte_i(base) XOR d[i] otherwise.  Keeping the permuted *)
(* term once, in base, keeps terms linear in the number of permutation     *)
(* calls: overwriting never copies base into a byte.                       *)
EXTENDS Naturals, Sequences, SequencesExt

CONSTANTS PermOp(_, _),   \* (state, first round) |-> state
          BX(_, _),       \* XOR of two bytes
          BC(_),          \* the constant byte with integer value 0..255
          BBit(_, _),     \* BBit(b, j): 0x80 if bit j (7 = msb) of b is set, else 0x00
          BBase(_, _),    \* BBase(base, i): byte i (1..40) of the permuted term
          BHas(_, _, _)   \* BHas(b, base, i): b syntactically contains BBase(base, i) (FALSE concretely)

-----------------------------------------------------------------------------
(* strict sequences: TLC evaluates [i \in S |-> e] lazily                  *)
Strict(f, n) == SubSeq(f, 1, n)
Idx(n)       == Strict([i \in 1..n |-> i], n)            \* <<1, ..., n>>
Rep(b, n)    == Strict([i \in 1..n |-> b], n)
Zeros(n)     == Rep(BC(0), n)
Bytes(ints)  == Strict([i \in 1..Len(ints) |-> BC(ints[i])], Len(ints))
XorSeq(a, b) == Strict([i \in 1..Len(a) |-> BX(a[i], b[i])], Len(a))   \* Len(b) >= Len(a)
Slice(s, off, n) == SubSeq(s, off + 1, off + n)          \* 0-based offset
Min2(a, b) == IF a < b THEN a ELSE b

-----------------------------------------------------------------------------
(* permutation state                                                       *)
State0 == [base |-> <<>>, d |-> Zeros(40), z |-> {}]

P(S, first) == PermOp(S, first)

\* byte i (1..40)
SG(S, i) == IF S.base = <<>> \/ i \in S.z THEN S.d[i] ELSE BX(S.d[i], BBase(S.base, i))

\* n bytes from 0-based offset off
Ext(S, off, n) == Strict([i \in 1..n |-> SG(S, off + i)], n)

\* XOR data into the state at 0-based offset off
XorIn(S, off, data) ==
  LET n == Len(data) IN
  IF n = 0 THEN S ELSE
  [S EXCEPT !.d = Strict([j \in 1..40 |->
                    IF j > off /\ j <= off + n THEN BX(S.d[j], data[j - off]) ELSE S.d[j]], 40)]

\* overwrite state bytes at 0-based offset off.  A new value that is "the old byte XOR x"
\* (encryption: c = s XOR m) is stored as an XOR into the byte, so that the base term is not
\* copied; any other value is stored as such and the position is marked overwritten.
Ovw(S, off, data) ==
  LET n == Len(data)
      In(j) == j > off /\ j <= off + n
      Keep(j) == S.base # <<>> /\ j \notin S.z /\ BHas(data[j - off], S.base, j)
  IN IF n = 0 THEN S ELSE
  [S EXCEPT !.d = Strict([j \in 1..40 |->
                    IF In(j) THEN (IF Keep(j) THEN BX(data[j - off], BBase(S.base, j)) ELSE data[j - off])
                    ELSE S.d[j]], 40),
            !.z = IF S.base = <<>> THEN {} ELSE S.z \cup {j \in (off + 1)..(off + n) : ~Keep(j)}]

Pad(S, off)  == XorIn(S, off, <<BC(128)>>)      \* the 1 bit of 10* padding at byte offset off
Sep(S)       == XorIn(S, 39, <<BC(1)>>)         \* domain separation: flip the last bit of the state
ZeroRate(S, n) == Ovw(S, 0, Zeros(n))
=========================================================================
