------------------------------ MODULE ApiAead ------------------------------
(* L2: the incremental AEAD session objects (ascon128_state_t and twins),  *)
(* shaped like src/aead/ascon-aead-inc-*.c and the block helpers of        *)
(* ascon-aead-common.c.  Projected object:                                 *)
(*    [s : permutation state, key, nonce : 16 bytes, posn : 0..rate-1]     *)
(* posn is "the partial-block position returned from and fed back into the *)
(* block cipher helpers".  key holds algebra bytes; nonces are concrete     *)
(* integers in both instances (public, and the carry arithmetic is not a   *)
(* sponge computation).                                                    *)
EXTENDS AsconModes

\* 128-bit big-endian increment with full carry, wrapping at 2^128 (C14)
\* ripple carry from digit i towards digit 1; top = largest digit (255 for bytes).  MC_Nonce
\* checks this very operator exhaustively for small bases, where all values can be enumerated.
RECURSIVE IncAt(_, _, _)
IncAt(n, i, top) == IF i = 0 THEN n
                    ELSE IF n[i] = top THEN IncAt([n EXCEPT ![i] = 0], i - 1, top)
                    ELSE [n EXCEPT ![i] = @ + 1]
NonceInc(n) == IncAt(n, 16, 255)
RECURSIVE NonceAdd(_, _)
NonceAdd(n, k) == IF k = 0 THEN n ELSE NonceAdd(NonceInc(n), k - 1)

\* ascon_aead_set_counter: 8 zero bytes, then the 64-bit counter big-endian (limbs msb first)
SetCounter(c) == <<0, 0, 0, 0, 0, 0, 0, 0,
                   c[1] \div 256, c[1] % 256, c[2] \div 256, c[2] % 256,
                   c[3] \div 256, c[3] % 256, c[4] \div 256, c[4] % 256>>
\* C++ set_nonce: left-pad short nonces with zeros, truncate long ones to the first 16 bytes
SetNonce(n) == IF Len(n) >= 16 THEN SubSeq(n, 1, 16)
               ELSE [i \in 1..(16 - Len(n)) |-> 0] \o n

ZeroKey(par) == Zeros(par.klen)
Zero16 == [i \in 1..16 |-> 0]

\* init/reinit: NULL key = all-zero key, NULL nonce = all-zero nonce; nself = the
\* nonce pointer is the state's own nonce field (documented way to keep it)
IncInit(par, old, k, n, knull, nnull, nself) ==
  [s     |-> IF old = <<>> THEN State0 ELSE old.s,
   key   |-> IF knull THEN ZeroKey(par) ELSE k,
   nonce |-> IF nself THEN old.nonce ELSE IF nnull THEN Zero16 ELSE n,
   posn  |-> 0]

\* start a packet: initialise from (key, nonce), absorb the AD, advance the stored nonce by one
IncStart(par, o, ad) ==
  [o EXCEPT !.s = AeadAD(AeadInitIV(par, par.iv, o.key, Bytes(o.nonce)), par, ad),
            !.posn = 0,
            !.nonce = NonceInc(o.nonce)]

\* encrypt/decrypt len bytes continuing at partial-block position posn
\* (ascon_aead_encrypt_8/16, ascon_aead_decrypt_8/16)
IncCrypt(par, o, data, dec) ==
  LET rate == par.rate
      n    == Len(data)
      one(S, off, blk) ==      \* process blk at offset off of the rate: [s, out]
         LET ks == Ext(S, off, Len(blk))
             ou == XorSeq(blk, ks)
         IN [s |-> Ovw(S, off, IF dec THEN blk ELSE ou), out |-> ou]
  IN IF o.posn > 0 /\ rate - o.posn > n
     THEN LET r == one(o.s, o.posn, data)
          IN [o |-> [o EXCEPT !.s = r.s, !.posn = o.posn + n], out |-> r.out]
     ELSE
       LET temp == IF o.posn > 0 THEN rate - o.posn ELSE 0
           r0   == IF temp > 0
                   THEN LET r == one(o.s, o.posn, Slice(data, 0, temp))
                        IN [s |-> P(r.s, par.b), out |-> r.out]
                   ELSE [s |-> o.s, out |-> <<>>]
           rest == Slice(data, temp, n - temp)
           r1   == FoldLeft(LAMBDA acc, i :
                              LET r == one(acc.s, 0, Slice(rest, (i - 1) * rate, rate))
                              IN [s |-> P(r.s, par.b), out |-> acc.out \o r.out],
                            r0, Idx(Len(rest) \div rate))
           t    == Rest(rest, rate)
           r2   == one(r1.s, 0, t)
       IN [o |-> [o EXCEPT !.s = r2.s, !.posn = Len(t)], out |-> r1.out \o r2.out]

\* finalize: pad at posn, key XOR, p^a, key XOR, 16 tag bytes.  The state is left as computed.
IncFinal(par, o) ==
  LET K  == o.key
      S1 == P(XorIn(Pad(o.s, o.posn), par.rate, K), 0)
      S2 == XorIn(S1, 24, Slice(K, par.klen - 16, 16))
  IN [o |-> [o EXCEPT !.s = S2], tag |-> Ext(S2, 24, 16)]
=========================================================================
