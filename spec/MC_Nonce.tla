----------------------------- MODULE MC_Nonce -----------------------------
(* C14 on a scaled nonce: D digits in base B instead of 16 digits in base  *)
(* 256, so that ALL values can be enumerated.                              *)
(*  (a) for every value n: Inc(n) = (n + 1) mod B^D as integers (full      *)
(*      carry through all digits, wrap at the top);                        *)
(*  (b) sessions of up to MaxOps operations (encrypt, successful decrypt,  *)
(*      failed decrypt) from every carry-chain representative: packet i    *)
(*      uses N + (number of earlier encryptions and successful             *)
(*      decryptions); a failed decryption leaves the stored nonce alone.   *)
(* Inc is ApiAead!IncAt, the operator the trace spec uses with base 256.   *)
EXTENDS ApiAead, Sym, TLC, NonceClosed
CONSTANTS B, D, MaxOps
ASSUME B^D < 2000000

Digits == 0..(B - 1)
RECURSIVE ToInt(_, _)
ToInt(n, i) == IF i = 0 THEN 0 ELSE ToInt(n, i - 1) * B + n[i]
Val(n) == ToInt(n, D)
Inc(n) == IncAt(n, D, B - 1)
\* carry-chain representatives: k trailing top digits preceded by a non-top digit, and all-top
CarryRep(k) == [i \in 1..D |-> IF i > D - k THEN B - 1 ELSE IF i = D - k THEN 0 ELSE (i % B)]
Reps == {CarryRep(k) : k \in 0..D}

VARIABLES mode, n0, cur, used, good, ops
vars == <<mode, n0, cur, used, good, ops>>

Init == \/ /\ mode = "all" /\ n0 \in [1..D -> Digits] /\ cur = n0 /\ used = <<>> /\ good = 0 /\ ops = 0
        \/ /\ mode = "session" /\ n0 \in Reps /\ cur = n0 /\ used = <<>> /\ good = 0 /\ ops = 0

\* encryption and successful decryption: use the stored nonce, then advance it
Success == /\ mode = "session" /\ ops < MaxOps
           /\ used' = Append(used, <<cur, good>>) /\ cur' = Inc(cur) /\ good' = good + 1 /\ ops' = ops + 1
           /\ UNCHANGED <<mode, n0>>
\* failed decryption: uses the stored nonce, does not advance it
Failure == /\ mode = "session" /\ ops < MaxOps
           /\ used' = Append(used, <<cur, good>>) /\ ops' = ops + 1
           /\ UNCHANGED <<mode, n0, cur, good>>
Next == Success \/ Failure
Spec == Init /\ [][Next]_vars

IncIsPlusOne == mode = "all" => Val(Inc(n0)) = (Val(n0) + 1) % (B^D)
StoredNonce  == Val(cur) = (Val(n0) + good) % (B^D)
PacketNonce  == \A i \in 1..Len(used) : Val(used[i][1]) = (Val(n0) + used[i][2]) % (B^D)
\* the closed form that NonceInd proves for base 256 x 16 digits is the recursive operator of the trace spec
ClosedIsRecursive == mode = "all" => IncClosedG(n0, D, B) = Inc(n0)
Inv == IncIsPlusOne /\ StoredNonce /\ PacketNonce /\ ClosedIsRecursive
=========================================================================
