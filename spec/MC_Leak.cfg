SPECIFICATION Spec
INVARIANT Inv
CHECK_DEADLOCK FALSE
CONSTANTS
  PermOp <- SPermOp
  BX <- SBX
  BC <- SBC
  BBit <- SBBit
  BBase <- SBBase
  BHas <- SBHas
  RekeyOp <- SRekeyOp
