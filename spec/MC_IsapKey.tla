---------------------------- MODULE MC_IsapKey ----------------------------
(* C06, persistence of pre-computed ISAP keys, on the symbolic instance:   *)
(* object A is initialised from a key, its saved form is loaded into       *)
(* object B at any point of A's history, and both process the same         *)
(* packets.  Invariants: the saved form is the canonical 80 bytes of       *)
(* KeyExpand(k); the loaded object is the same state term as the original; *)
(* B's output equals A's for every packet and equals the one-shot function *)
(* of the key; decryption with either returns the plaintext.  The bit-wise *)
(* re-keying is a free function here (see ApiIsap.RekeyOp).  "Encrypt and  *)
(* decrypt leave the key unchanged" is the frame condition UNCHANGED pk of *)
(* Packet; the trace spec demands bit-identical raw bytes of the real      *)
(* object after every use.                                                 *)
EXTENDS ApiIsap, Sym, TLC
VARIABLES v, pkA, pkB, npkt, lastA, lastB, lastM
vars == <<v, pkA, pkB, npkt, lastA, lastB, lastM>>
K0 == Syms("k", 0, IsapPar(v).klen)

Init == v \in {"128", "128a", "80pq"} /\ pkB = <<>> /\ npkt = 0 /\ lastA = <<>> /\ lastB = <<>> /\ lastM = <<>>
        /\ pkA = IsapKeyExpand(v, Syms("k", 0, IsapPar(v).klen))
\* save A at any point of its history and load the bytes into B
SaveLoad == /\ pkB = <<>> /\ pkB' = IsapLoad(IsapSave(pkA))
            /\ UNCHANGED <<v, pkA, npkt, lastA, lastB, lastM>>
\* both objects process the same packet; the key objects are not changed by it (frame condition)
Packet(adl, ml) ==
  /\ npkt < 2
  /\ LET N == Syms(<<"n", npkt>>, 0, 16)  A == Syms(<<"a", npkt>>, 0, adl)  M == Syms(<<"m", npkt>>, 0, ml) IN
     /\ lastA' = IsapEncPk(v, pkA, N, A, M)
     /\ lastB' = IF pkB = <<>> THEN <<>> ELSE IsapEncPk(v, pkB, N, A, M)
     /\ lastM' = <<N, A, M>>
  /\ npkt' = npkt + 1 /\ UNCHANGED <<v, pkA, pkB>>
Next == SaveLoad \/ (\E adl \in {0, 2}, ml \in {0, 3, 9} : Packet(adl, ml))
Spec == Init /\ [][Next]_vars

Canon(pk) == [ke |-> FoldState(pk.ke), ka |-> FoldState(pk.ka)]
\* the saved form is the canonical 2 x 40 bytes of the expanded key
SavedCanonical == IsapSave(pkA) = Ext(IsapKeyState(IsapPar(v), K0, 3), 0, 40) \o Ext(IsapKeyState(IsapPar(v), K0, 2), 0, 40)
\* a loaded key IS the original key (as a state term) ...
LoadSaveId == (pkB # <<>>) => Canon(pkB) = Canon(pkA)
\* ... and behaves identically on every packet
SameBehaviour == (lastB # <<>>) => lastA = lastB
OneShotAgrees == (lastM # <<>>) => lastA = IsapEnc(v, K0, lastM[1], lastM[2], lastM[3])
RoundTrip == (lastM # <<>>) =>
   LET r == IsapDecPk(v, IF pkB = <<>> THEN pkA ELSE pkB, lastM[1], lastM[2], lastA) IN r.ok /\ r.m = lastM[3]
Inv == SavedCanonical /\ LoadSaveId /\ SameBehaviour /\ OneShotAgrees /\ RoundTrip
=========================================================================
