---------------------------- MODULE MC_IsapKey ----------------------------
(* C06, persistence of pre-computed ISAP keys, on the symbolic instance:   *)
(* object A is initialised from a key, its saved form is loaded into       *)
(* object B, and back.  Invariants: the saved form is the canonical 80     *)
(* bytes of KeyExpand(k); the loaded object is the same state term as the  *)
(* original, so every function of the key object (IsapEncPk, IsapDecPk)    *)
(* behaves identically.  Encrypting symbolically with ISAP is beyond TLC   *)
(* (terms are trees, the MAC re-keying copies the whole MAC state 40       *)
(* times), so packets are left to trace validation; "encrypt/decrypt leave *)
(* the key unchanged" is the frame condition of the trace actions, which   *)
(* demand bit-identical raw bytes of the real object.                      *)
EXTENDS ApiIsap, Sym, TLC
VARIABLES v, pkA, pkB, step
vars == <<v, pkA, pkB, step>>
K0 == Syms("k", 0, IsapPar(v).klen)

Init == v \in {"128", "128a", "80pq"} /\ step = 0 /\ pkB = <<>>
        /\ pkA = IsapKeyExpand(v, Syms("k", 0, IsapPar(v).klen))
\* save A and load the bytes into B; then save B and load into A again (idempotence)
SaveLoadAB == step = 0 /\ pkB' = IsapLoad(IsapSave(pkA)) /\ step' = 1 /\ UNCHANGED <<v, pkA>>
SaveLoadBA == step = 1 /\ pkA' = IsapLoad(IsapSave(pkB)) /\ step' = 2 /\ UNCHANGED <<v, pkB>>
Next == SaveLoadAB \/ SaveLoadBA
Spec == Init /\ [][Next]_vars

Canon(pk) == [ke |-> FoldState(pk.ke), ka |-> FoldState(pk.ka)]
\* the saved form is the canonical 2 x 40 bytes of the expanded key ...
SavedCanonical == IsapSave(pkA) = Ext(IsapKeyState(IsapPar(v), K0, 3), 0, 40) \o Ext(IsapKeyState(IsapPar(v), K0, 2), 0, 40)
\* ... and a loaded key IS the original key (as a state term), hence behaves identically:
\* IsapEncPk / IsapDecPk are functions of the key object
LoadSaveId == (pkB # <<>>) => Canon(pkB) = Canon(pkA) /\ Canon(pkA) = Canon(IsapKeyExpand(v, K0))
Inv == SavedCanonical /\ LoadSaveId
=========================================================================
