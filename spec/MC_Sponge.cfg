SPECIFICATION Spec
INVARIANT Inv
CHECK_DEADLOCK FALSE
CONSTANTS
  MaxIn = 2
  MaxOut = 2
  Kinds = {"xof", "xofa", "prf"}
  WithCopy = FALSE
  Duplex = FALSE
  ChunkLens <- AllChunks
  PermOp <- SPermOp
  BX <- SBX
  BC <- SBC
  BBit <- SBBit
  BBase <- SBBase
  BHas <- SBHas
