SPECIFICATION Spec
INVARIANT Inv
CHECK_DEADLOCK FALSE
CONSTANTS
  TagPositions = {1,2,3,4,5,6,7,8,9,10,11,12,13,14,15}
  Families = {"aead"}
  PermOp <- SPermOp
  BX <- SBX
  BC <- SBC
  BBit <- SBBit
  BBase <- SBBase
  BHas <- SBHas
  RekeyOp <- SRekeyOp
