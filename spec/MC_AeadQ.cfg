SPECIFICATION Spec
INVARIANT Inv
CHECK_DEADLOCK FALSE
CONSTANTS
  MaxBlocks = 1
  PermOp <- SPermOp
  BX <- SBX
  BC <- SBC
  BBit <- SBBit
  BBase <- SBBase
  BHas <- SBHas
