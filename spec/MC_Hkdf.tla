----------------------------- MODULE MC_Hkdf -----------------------------
(* Exhaustive check of the incremental HKDF object against RFC 5869 with   *)
(* the real 8-bit block counter and a free HMAC symbol: every partition of *)
(* the output into expand calls (chunk lengths 0, 1, 31, 32, 33, 64, 100)  *)
(* from a fresh object and from an object positioned three blocks before   *)
(* the 255-block limit; output so far is a prefix of T(1)|T(2)|...; what   *)
(* cannot be served is zero and reported with -1; once exhausted, every    *)
(* further request fails.                                                  *)
EXTENDS ApiKdf, Sym, TLC

\* A free 32-byte HMAC.  Its value is the block term <<"hm", key, data>>; byte j of it is the
\* atom <<"hmb", term, j>>.  A whole block that re-enters as data (the chaining value T(i-1))
\* is folded back into its term, so nesting stays linear in the number of blocks.
BlockBytes(id) == SubSeq([j \in 1..32 |-> [k |-> 0, a |-> {<<"hmb", id, j>>}]], 1, 32)
IdOfByte(b) == (CHOOSE x \in b.a : TRUE)[2]
IsBlockPrefix(d) == /\ Len(d) >= 32 /\ Cardinality(d[1].a) = 1
                    /\ (CHOOSE x \in d[1].a : TRUE)[1] = "hmb"
                    /\ SubSeq(d, 1, 32) = BlockBytes(IdOfByte(d[1]))
Fold(d) == IF IsBlockPrefix(d) THEN <<<<"blk", IdOfByte(d[1])>>>> \o SubSeq(d, 33, Len(d)) ELSE d
HM(k, d) == BlockBytes(<<"hm", Fold(k), Fold(d)>>)

CONSTANTS Chunks, MaxFresh      \* chunk lengths; bound on bytes produced from a fresh object

VARIABLES o, startCtr, startOut, info, hout, lastRet, lastN
vars == <<o, startCtr, startOut, info, hout, lastRet, lastN>>

Prk  == Syms("prk", 0, 32)
Info == Syms("info", 0, 3)
PrevT == Syms("T252", 0, 32)      \* the block before the positioned start, as an opaque value

Init == /\ info = Info /\ hout = <<>> /\ lastRet = 0 /\ lastN = 0
        /\ \/ /\ startCtr = 1 /\ startOut = Zeros(32)
              /\ o = [prk |-> Prk, out |-> Zeros(32), counter |-> 1, posn |-> 32]
           \/ /\ startCtr = 253 /\ startOut = PrevT
              /\ o = [prk |-> Prk, out |-> PrevT, counter |-> 253, posn |-> 32]

Expand(n) == /\ (startCtr = 1 => Len(hout) + n <= MaxFresh)
             /\ (startCtr = 253 => Len(hout) <= 3 * 32 + 40)
             /\ LET r == HkdfObjExpand(HM, o, info, n) IN
                /\ o' = r.o /\ hout' = hout \o r.out /\ lastRet' = r.ret /\ lastN' = n
             /\ UNCHANGED <<startCtr, startOut, info>>
Next == \E n \in Chunks : Expand(n)
Spec == Init /\ [][Next]_vars

-----------------------------------------------------------------------------
\* RFC 5869 stream from block startCtr on, zero after block 255
RECURSIVE Blocks(_, _, _)
Blocks(prev, i, need) ==       \* blocks i, i+1, ... covering `need` bytes
  IF need <= 0 THEN <<>>
  ELSE IF i > 255 THEN Zeros(need)
  ELSE LET t == HkdfBlock(HM, Prk, IF i = 1 THEN <<>> ELSE prev, info, i)
       IN t \o Blocks(t, i + 1, need - 32)
Expected(n) == Slice(Blocks(startOut, startCtr, n), 0, n)

Avail == (256 - startCtr) * 32          \* bytes that exist before the limit
PrefixOK == hout = Expected(Len(hout))
RetOK    == lastRet = (IF Len(hout) > Avail THEN -1 ELSE 0)
            \/ (lastN = 0 /\ lastRet = 0)          \* an empty request never fails
FieldsOK == o.posn \in 0..32 /\ o.counter \in 0..255
Inv == PrefixOK /\ RetOK /\ FieldsOK
=========================================================================
