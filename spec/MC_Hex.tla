------------------------------- MODULE MC_Hex -------------------------------
(* All strings of length <= MaxLen over a class alphabet (decimal digit,   *)
(* lower and upper hex letter, two kinds of whitespace, a letter just      *)
(* outside the hex range, a control character, NUL) x all space values:    *)
(* automaton = documented function; nothing is written at index >= space;  *)
(* decode(encode(b)) = b for all byte strings over a small byte alphabet.  *)
EXTENDS ApiHex, TLC
CONSTANTS MaxLen
Alphabet == {51, 97, 70, 32, 10, 103, 71, 47, 58, 64, 96, 0}    \* '3' 'a' 'F' ' ' '\n' 'g' 'G' '/' ':' '@' '`' NUL
ByteAlpha == {0, 9, 160, 255}
VARIABLES str, space, kind
vars == <<str, space, kind>>
Strings(n) == UNION {[1..k -> Alphabet] : k \in 0..n}
Init == \/ /\ kind = "dec" /\ str \in Strings(MaxLen) /\ space \in 0..3
        \/ /\ kind = "rt" /\ str \in UNION {[1..k -> ByteAlpha] : k \in 0..4} /\ space \in {0, 1}
Next == UNCHANGED vars
Spec == Init /\ [][Next]_vars
AutoIsSpec == kind = "dec" =>
   LET a == HexDecAuto(str, space)  s == HexDecSpec(str, space) IN
   a.ret = s.ret /\ (s.ret >= 0 => a.out = s.out) /\ a.written <= space
RoundTrip == kind = "rt" =>
   LET e == HexEnc(str, space = 1) IN HexDecSpec(e, Len(str)).out = str /\ HexDecSpec(e, Len(str)).ret = Len(str)
             /\ BytesToHex(str, 2 * Len(str) + 1, space = 1).ret = 2 * Len(str)
             /\ BytesToHex(str, 2 * Len(str), space = 1).ret = -1
Inv == AutoIsSpec /\ RoundTrip
=========================================================================
