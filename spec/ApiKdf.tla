------------------------------ MODULE ApiKdf ------------------------------
(* HKDF (RFC 5869) over an HMAC, its incremental object as the library     *)
(* exposes it, and PBKDF2 (RFC 8018 section 5.2) over a PRF.  The HMAC/PRF *)
(* is an operator PARAMETER: the concrete instance passes ASCON-HMAC[A] or *)
(* the documented customised-XOF PRF; MC_Hkdf passes a free function.      *)
EXTENDS AsconAlg

-----------------------------------------------------------------------------
(* RFC 5869.  PRK = HMAC(salt, IKM);  T(0) = empty, T(i) = HMAC(PRK, T(i-1) | info | i);   *)
(* OKM = first L bytes of T(1) | T(2) | ... ; at most 255 blocks.                          *)
HkdfExtract(HM(_, _), key, salt) == HM(salt, key)
HkdfBlock(HM(_, _), prk, prev, info, i) == HM(prk, prev \o info \o <<BC(i)>>)

\* one-shot: [ret, out]; more than 255 * 32 bytes is refused with an error and no output
Hkdf(HM(_, _), key, salt, info, L) ==
  IF L > 32 * 255 THEN [ret |-> -1, out |-> <<>>] ELSE
  LET prk == HkdfExtract(HM, key, salt)
      nb  == (L + 31) \div 32
      r   == FoldLeft(LAMBDA acc, i :
                        LET t == HkdfBlock(HM, prk, acc.prev, info, i)
                        IN [prev |-> t, out |-> acc.out \o t],
                      [prev |-> <<>>, out |-> <<>>], Idx(nb))
  IN [ret |-> 0, out |-> Slice(r.out, 0, L)]

-----------------------------------------------------------------------------
(* L2: the incremental object  [prk, out : 32 bytes, counter : 0..255, posn : 0..32].      *)
(* counter is the number of the NEXT block; it is an 8-bit value and 0 means exhausted.    *)
HkdfObjExtract(HM(_, _), key, salt) ==
  [prk |-> HkdfExtract(HM, key, salt), out |-> Zeros(32), counter |-> 1, posn |-> 32]

\* expand n more bytes: [o, out, ret].  Whatever cannot be served is zero-filled and ret = -1.
HkdfObjExpand(HM(_, _), o, info, n) ==
  LET l0   == Min2(32 - o.posn, n)
      out0 == Slice(o.out, o.posn, l0)
      o0   == [o EXCEPT !.posn = o.posn + l0]
      rest == n - l0
      nb   == (rest + 31) \div 32
      r    == FoldLeft(LAMBDA acc, i :
                IF acc.ret = -1 THEN acc
                ELSE IF acc.o.counter = 0
                THEN [acc EXCEPT !.ret = -1, !.out = acc.out \o Zeros(n - Len(acc.out))]
                ELSE LET prev == IF acc.o.counter = 1 THEN <<>> ELSE acc.o.out
                         t    == HkdfBlock(HM, acc.o.prk, prev, info, acc.o.counter)
                         len  == Min2(32, n - Len(acc.out))
                     IN [o   |-> [prk |-> acc.o.prk, out |-> t, counter |-> (acc.o.counter + 1) % 256, posn |-> len],
                         out |-> acc.out \o Slice(t, 0, len), ret |-> 0],
              [o |-> o0, out |-> out0, ret |-> 0], Idx(nb))
  IN r

-----------------------------------------------------------------------------
(* RFC 8018 section 5.2:  T_i = U_1 xor ... xor U_c,  U_1 = PRF(P, S | INT(i)),            *)
(* U_j = PRF(P, U_{j-1}), INT(i) big-endian 32 bits from 1; DK = first L bytes of T_1 |... *)
(* The library documents count = 0 as 1.  Block numbers below 2^31 (TLC integers).          *)
Int32(i) == <<BC(i \div 16777216), BC((i \div 65536) % 256), BC((i \div 256) % 256), BC(i % 256)>>
Pbkdf2Block(PRF(_, _), pw, salt, count, i) ==
  LET u1 == PRF(pw, salt \o Int32(i))
      r  == FoldLeft(LAMBDA acc, j : LET u == PRF(pw, acc.u) IN [u |-> u, t |-> XorSeq(acc.t, u)],
                     [u |-> u1, t |-> u1], Idx((IF count = 0 THEN 1 ELSE count) - 1))
  IN r.t
Pbkdf2(PRF(_, _), pw, salt, count, L) ==
  LET nb == (L + 31) \div 32
      r  == FoldLeft(LAMBDA acc, i : acc \o Pbkdf2Block(PRF, pw, salt, count, i), <<>>, Idx(nb))
  IN Slice(r, 0, L)
=========================================================================
