---------------------------- MODULE KatCheck ----------------------------
(* Anchors L1 on vectors that do not come from this library: the KAT files *)
(* of the reference implementations shipped under test/kat.  One vector    *)
(* per TLC step; exp is what AsconModes computes, obs is the file's value. *)
EXTENDS ApiSponge, ApiIsap, Conc, Json, IOUtils, TLC

V == ndJsonDeserialize(IOEnv.KATFILE)

VARIABLES i, exp, obs
vars == <<i, exp, obs>>

Compute(v) ==
  CASE v.fn = "aead"     -> AeadEnc(v.v, v.k, v.n, v.ad, v.m)
    [] v.fn = "aeaddec"  -> LET r == AeadDec(v.v, v.k, v.n, v.ad, v.ct) IN <<r.ok, r.m>>
    [] v.fn = "siv"      -> SivEnc(v.v, v.k, v.n, v.ad, v.m)
    [] v.fn = "hash"     -> Hash(v.m)
    [] v.fn = "hasha"    -> Hasha(v.m)
    [] v.fn = "xof"      -> Xof(v.m, Len(v.out))
    [] v.fn = "xofa"     -> Xofa(v.m, Len(v.out))
    [] v.fn = "prf"      -> Prf(v.k, v.m, Len(v.out))
    [] v.fn = "mac"      -> Mac(v.k, v.m)
    [] v.fn = "prfshort" -> PrfShort(v.k, v.m, Len(v.out))
    [] v.fn = "isap"     -> IsapEnc(v.v, v.k, v.n, v.ad, v.m)
    [] v.fn = "hmac"     -> Hmac(v.v, v.k, v.m)
    [] v.fn = "kmac"     -> Kmac(v.v, v.k, v.m, v.custom, SzOf(Len(v.out)), Len(v.out))
    [] OTHER -> <<"unknown function", v.fn>>

Expected(v) ==
  CASE v.fn \in {"aead", "siv", "isap"} -> v.ct
    [] v.fn = "aeaddec" -> <<TRUE, v.m>>
    [] OTHER -> v.out

Init == i = 1 /\ exp = <<>> /\ obs = <<>>
Next == /\ i <= Len(V)
        /\ exp' = Compute(V[i])
        /\ obs' = Expected(V[i])
        /\ i' = i + 1
Spec == Init /\ [][Next]_vars
Agree == exp = obs
AllDone == TLCGet("stats").diameter - 1 = Len(V)
=========================================================================
