----------------------------- MODULE MC_Aead -----------------------------
(* Exhaustive check (symbolic instance) that the incremental AEAD session  *)
(* object of ApiAead - the code's left-over/full-block/stash structure     *)
(* with its posn field - refines the one-shot function AeadEnc/AeadDec of  *)
(* AsconModes for EVERY partition of the message into calls, including     *)
(* empty calls, for all three variants and all AD lengths in range; that   *)
(* re-init after any history equals a fresh init; and that the second      *)
(* packet of a session uses nonce + 1.                                     *)
EXTENDS ApiAead, Sym, TLC

CONSTANTS MaxBlocks   \* total message bound = MaxBlocks * rate + 5

VARIABLES v, dir, o, ad, nonce0, min, mout, phase, pkt
vars == <<v, dir, o, ad, nonce0, min, mout, phase, pkt>>

Par  == AeadPar(v)
K    == Syms("k", 0, Par.klen)
Bound == MaxBlocks * Par.rate + 5
N0   == [i \in 1..16 |-> IF i = 16 THEN 254 ELSE 255]     \* two increments exercise the full carry chain

\* the message stream of packet p is tagged with p so that packets are distinguishable
Fresh(n) == Syms(<<"m", pkt>>, Len(min), n)

Init == /\ v \in {"128", "128a", "80pq"}
        /\ dir \in {"enc", "dec"}
        /\ ad \in {Syms("a", 0, n) : n \in {0, 1, AeadPar(v).rate - 1, AeadPar(v).rate, 2 * AeadPar(v).rate + 3}}
        /\ nonce0 = N0
        /\ o = IncStart(AeadPar(v), IncInit(AeadPar(v), <<>>, Syms("k", 0, AeadPar(v).klen), N0, FALSE, FALSE, FALSE), ad)
        /\ min = <<>> /\ mout = <<>> /\ phase = "body" /\ pkt = 1

Block(n) == /\ phase = "body" /\ Len(min) + n <= Bound
            /\ LET d == Fresh(n)
                   r == IncCrypt(Par, o, d, dir = "dec") IN
               /\ o' = r.o /\ min' = min \o d /\ mout' = mout \o r.out
            /\ UNCHANGED <<v, dir, ad, nonce0, phase, pkt>>

Finalize == /\ phase = "body"
            /\ LET r == IncFinal(Par, o) IN
               /\ o' = r.o /\ mout' = mout \o r.tag
            /\ phase' = "done"
            /\ UNCHANGED <<v, dir, ad, nonce0, min, pkt>>

\* next packet on the same session object: start() again, no re-init
NextPacket == /\ phase = "done" /\ pkt < 2
              /\ o' = IncStart(Par, o, ad)
              /\ nonce0' = NonceInc(nonce0)
              /\ min' = <<>> /\ mout' = <<>> /\ phase' = "body" /\ pkt' = pkt + 1
              /\ UNCHANGED <<v, dir, ad>>

\* re-initialise a used object with the same key and the nonce of the current packet
Reinit == /\ phase \in {"body", "done"} /\ pkt = 2
          /\ o' = IncStart(Par, IncInit(Par, o, K, nonce0, FALSE, FALSE, FALSE), ad)
          /\ min' = <<>> /\ mout' = <<>> /\ phase' = "body" /\ pkt' = 3
          /\ UNCHANGED <<v, dir, ad, nonce0>>

Next == (\E n \in 0..Bound : Block(n)) \/ Finalize \/ NextPacket \/ Reinit

Spec == Init /\ [][Next]_vars

-----------------------------------------------------------------------------
Nb == Bytes(nonce0)

\* one-shot results on everything fed so far
OneShotEnc == AeadEnc(v, K, Nb, ad, min)
\* decryption direction: min is ciphertext; the one-shot plaintext of min || anytag
OneShotDecBody == AeadDecBody(AeadAD(AeadInitIV(Par, Par.iv, K, Nb), Par, ad), Par, min)

\* output so far is the prefix of the one-shot output of the input so far
PrefixOK ==
  phase = "body" =>
     IF dir = "enc" THEN mout = SubSeq(OneShotEnc, 1, Len(min))
     ELSE mout = OneShotDecBody.m
\* after finalisation: ciphertext || tag is exactly the one-shot value (enc); the recomputed
\* tag is the one-shot tag (dec)
FinalOK ==
  phase = "done" =>
     IF dir = "enc" THEN mout = OneShotEnc
     ELSE mout = OneShotDecBody.m \o AeadTag(OneShotDecBody.s, Par, K)
\* decrypting the encryption returns the message: Dec(Enc(m)) = m, symbolically
RoundTrip ==
  (phase = "done" /\ dir = "enc") =>
     LET r == AeadDec(v, K, Nb, ad, mout) IN r.ok /\ r.m = min
PosnOK == o.posn < Par.rate /\ (phase = "body" => o.posn = Len(min) % Par.rate)
\* the stored nonce is always one ahead of the nonce of the packet in progress
NonceOK == o.nonce = NonceInc(nonce0)
\* the third "packet" was produced by a re-initialised used object: same invariants apply (checked above)

Inv == PrefixOK /\ FinalOK /\ RoundTrip /\ PosnOK /\ NonceOK
\* ghost/history variables are functions of the rest; hide nothing (they are part of the claim)
=========================================================================
