SPECIFICATION Spec
INVARIANT Inv
CHECK_DEADLOCK FALSE
CONSTANTS
  B = 2
  D = 16
  MaxOps = 4
  PermOp <- SPermOp
  BX <- SBX
  BC <- SBC
  BBit <- SBBit
  BBase <- SBBase
  BHas <- SBHas
