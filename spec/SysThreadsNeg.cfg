SPECIFICATION Spec
INVARIANT Inv
CHECK_DEADLOCK FALSE
CONSTANTS
  Threads = {"t1", "t2"}
  Calls = 2
  Blocks = 2
  HiddenGlobal = TRUE
