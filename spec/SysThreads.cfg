SPECIFICATION Spec
INVARIANT Inv
CHECK_DEADLOCK FALSE
CONSTANTS
  Threads = {"t1", "t2", "t3"}
  Calls = 2
  Blocks = 2
  HiddenGlobal = FALSE
