--------------------------- MODULE AsconPerm ---------------------------
(* L0b: the ASCON permutation of the ASCON v1.2 submission (section 2.6),  *)
(* written from the specification document, not from the C code.           *)
(*                                                                         *)
(* The state is five 64-bit words x0..x4.  One round is                    *)
(*   p_C : x2 ^= c_r      with c_r = ((15 - r) << 4) | r  for r in 0..11   *)
(*   p_S : the 5-bit S-box applied bit-sliced                               *)
(*   p_L : x_i ^= rotr(x_i, a_i) ^ rotr(x_i, b_i)                          *)
(* p^12 runs rounds 0..11; p^b runs rounds 12-b..11.  The library calls    *)
(* the index of the first round executed "first_round".                    *)
EXTENDS AsconWord

RoundConst(r) == (15 - r) * 16 + r

Round(x, r) ==
  LET \* p_C
      c2 == << x[3][1], x[3][2], x[3][3], x[3][4] ^^ RoundConst(r) >>
      \* p_S, bit-sliced form of figure 5 of the submission
      a0 == WXor(x[1], x[5])
      a4 == WXor(x[5], x[4])
      a2 == WXor(c2, x[2])
      a1 == x[2]
      a3 == x[4]
      t0 == WAnd(WNot(a0), a1)
      t1 == WAnd(WNot(a1), a2)
      t2 == WAnd(WNot(a2), a3)
      t3 == WAnd(WNot(a3), a4)
      t4 == WAnd(WNot(a4), a0)
      b0 == WXor(a0, t1)
      b1 == WXor(a1, t2)
      b2 == WXor(a2, t3)
      b3 == WXor(a3, t4)
      b4 == WXor(a4, t0)
      s1 == WXor(b1, b0)
      s0 == WXor(b0, b4)
      s3 == WXor(b3, b2)
      s2 == WNot(b2)
      s4 == b4
      \* p_L
  IN << WXor(s0, WXor(WRotR(s0, 19), WRotR(s0, 28))),
        WXor(s1, WXor(WRotR(s1, 61), WRotR(s1, 39))),
        WXor(s2, WXor(WRotR(s2,  1), WRotR(s2,  6))),
        WXor(s3, WXor(WRotR(s3, 10), WRotR(s3, 17))),
        WXor(s4, WXor(WRotR(s4,  7), WRotR(s4, 41))) >>

\* rounds first..11 (first in 0..12; first = 12 is the identity)
RECURSIVE PermuteW(_, _)
PermuteW(x, first) == IF first >= 12 THEN x ELSE PermuteW(Round(x, first), first + 1)

\* canonical 40-byte big-endian state <-> five words
WordsOf(b) == << WFromBytes(b, 0), WFromBytes(b, 8), WFromBytes(b, 16),
                 WFromBytes(b, 24), WFromBytes(b, 32) >>
BytesOf(x) == WToBytes(x[1]) \o WToBytes(x[2]) \o WToBytes(x[3])
              \o WToBytes(x[4]) \o WToBytes(x[5])

\* The permutation on canonical bytes.  Permute is the operator every
\* concrete instance binds the abstract P(_,_) to.
Permute(b, first) == BytesOf(PermuteW(WordsOf(b), first))

=========================================================================
