---------------------------- MODULE MC_ByteArray ----------------------------
(* All sequences of up to MaxOps operations over three byte_array          *)
(* variables: the implementation-shaped copy-on-write heap refines "each   *)
(* variable is its own sequence"; reference counts equal the number of     *)
(* variables pointing at a block (no leak, no double free).                *)
EXTENDS ApiByteArray, TLC
CONSTANTS MaxOps
Vars == {1, 2, 3}
Bytes2 == {1, 2}
VARIABLES st, abs, nops
vars == <<st, abs, nops>>
Init == st = [heap |-> [i \in {} |-> 0], ptr |-> [v \in Vars |-> 0]] /\ abs = [v \in Vars |-> <<>>] /\ nops = 0
Op(newSt, newAbs) == nops < MaxOps /\ st' = newSt /\ abs' = newAbs /\ nops' = nops + 1
Construct(v, n, b) == Op(IConstruct(st, v, n, b), [abs EXCEPT ![v] = AConstruct(n, b)])
Assign(v, w)   == Op(IAssign(st, v, w), [abs EXCEPT ![v] = abs[w]])
SetIndex(v, b) == Len(abs[v]) > 0 /\ Op(ISetIndex(st, v, Len(abs[v]) - 1, b), [abs EXCEPT ![v] = ASet(@, Len(@) - 1, b)])
SetData(v, b)  == Len(abs[v]) > 0 /\ Op(ISetData(st, v, 0, b), [abs EXCEPT ![v] = ASet(@, 0, b)])
Resize(v, n)   == Op(IResize(st, v, n), [abs EXCEPT ![v] = AResize(@, n)])
Reserve(v, n)  == Op(IReserve(st, v, n), abs)
Push(v, b)     == Len(abs[v]) < 4 /\ Op(IPush(st, v, b), [abs EXCEPT ![v] = APush(@, b)])
Pop(v)         == Op(IPop(st, v), [abs EXCEPT ![v] = APop(@)])
Clear(v)       == Op(IClear(st, v), [abs EXCEPT ![v] = <<>>])
Next == \E v \in Vars :
          \/ \E n \in {0, 1, 3}, b \in Bytes2 : Construct(v, n, b)
          \/ \E w \in Vars : Assign(v, w)
          \/ \E b \in Bytes2 : SetIndex(v, b) \/ SetData(v, b) \/ Push(v, b)
          \/ \E n \in {0, 1, 2, 3} : Resize(v, n) \/ Reserve(v, n)
          \/ Pop(v) \/ Clear(v)
Spec == Init /\ [][Next]_vars

Refines == \A v \in Vars : IContents(st, v) = abs[v]
CmpOK   == \A v, w \in Vars : ICmp(st, v, w) = ACmp(abs[v], abs[w])
RefsOK  == \A p \in DOMAIN st.heap : st.heap[p].ref = Cardinality({v \in Vars : st.ptr[v] = p})
           /\ st.heap[p].size <= st.heap[p].cap /\ Len(st.heap[p].data) = st.heap[p].cap
NoDangling == \A v \in Vars : st.ptr[v] = 0 \/ st.ptr[v] \in DOMAIN st.heap
Inv == Refines /\ CmpOK /\ RefsOK /\ NoDangling
=========================================================================
