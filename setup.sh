#!/bin/bash
# Offline setup: parse every specification, build the default flavour of library + driver,
# anchor the L1 specification on a sample of the reference KAT vectors.
set -e
VR=${VERIF_ROOT:-/verif}
cd $VR
mkdir -p .build/tlc evidence
for f in spec/*.tla; do
  out=$(cd spec && tla-sany $(basename $f) 2>&1) || { echo "$out" | tail -20; echo "SANY failed on $f"; exit 1; }
  if echo "$out" | grep -q "\*\*\* Errors\|Fatal errors\|Could not parse"; then echo "$out" | tail -20; echo "SANY failed on $f"; exit 1; fi
done
tools/build.sh rel
python3 tools/kat2json.py ${REPO:-/repo}/test/kat .build/kat_setup.ndjson --every 211 --max-len 64 >/dev/null
( cd spec && KATFILE=$VR/.build/kat_setup.ndjson ../tools/tlc.sh -workers 2 -metadir $VR/.build/tlc/kat_setup -config KatCheck.cfg KatCheck.tla > $VR/.build/kat_setup.out 2>&1 ) || { tail -30 .build/kat_setup.out; echo "KatCheck failed"; exit 1; }
rm -rf .build/tlc/kat_setup spec/*_TTrace_*
echo "setup ok"
