#!/usr/bin/env python3
"""asmint_mutate.py [n] - sensitivity of the assembly interpreters: n random single-line mutations per
non-host back end (delete an instruction, change an immediate by one, swap two register operands) in a
scratch copy of src/core under /tmp; a mutation counts as detected when the interpreter's result on
(12 starting rounds x 3 states) differs from the unmutated file's or the ABI/guard flags drop or it raises.
Undetected mutations are printed (they are usually semantically neutral: a dead move, a label alignment)."""
import os, random, re, shutil, sys, tempfile
sys.path.insert(0, os.path.dirname(os.path.abspath(__file__)))
n = int(sys.argv[1]) if len(sys.argv) > 1 else 20
rng = random.Random(7)
src = os.environ.get('REPO', '/repo') + '/src/core'
tmp = tempfile.mkdtemp(prefix='asmmut-')
os.makedirs(tmp + '/src/core'); 
for f in os.listdir(src):
    if f.endswith('.S') or f.endswith('.h'): shutil.copy(src + '/' + f, tmp + '/src/core/' + f)
os.environ['REPO'] = tmp
import asmint
asmint.REPO = tmp
sts = [bytes(range(40)), bytes([0xff] * 40), bytes(rng.randrange(256) for _ in range(40))]
def sig(arch):
    asmint._machines.pop(arch, None)
    try:
        m = asmint.machine(arch)
        return [(r['out'], r['regs'], r['sp'], r['guard']) for r in (m.run(s, k) for s in sts for k in range(12))]
    except Exception as e:
        return 'raise ' + type(e).__name__
tot = det = 0
for arch, a in asmint.ARCH.items():
    path = tmp + '/src/core/' + a['file']; orig = open(path).read(); base = sig(arch)
    lines = orig.split('\n')
    cand = [i for i, l in enumerate(lines) if re.match(r'^\t[a-z]', l) and not l.strip().startswith('.')]
    d = 0; missed = []
    for _ in range(n):
        i = rng.choice(cand); l = lines[i]; kind = rng.choice(['del', 'imm', 'swap'])
        if kind == 'imm' and re.search(r'\d+', l.split('\t', 2)[-1]):
            ms = list(re.finditer(r'(?<![\w.])(\d+)', l.split('\t', 2)[-1])); 
            if ms:
                m = rng.choice(ms); pre = l[: len(l) - len(l.split('\t', 2)[-1])]; t = l.split('\t', 2)[-1]
                new = pre + t[:m.start()] + str(int(m.group(1)) + 1) + t[m.end():]
            else: new = ''
        elif kind == 'swap':
            parts = l.split('\t'); ops = parts[-1].split(', ')
            if len(ops) >= 2 and ops[-1] != ops[-2]: ops[-1], ops[-2] = ops[-2], ops[-1]; new = '\t'.join(parts[:-1] + [', '.join(ops)])
            else: new = ''
        else: new = ''
        mut = lines[:i] + ([new] if new else []) + lines[i + 1:]
        open(path, 'w').write('\n'.join(mut))
        s2 = sig(arch); tot += 1
        if s2 != base: d += 1; det += 1
        else: missed.append((i + 1, l.strip(), new.strip() or '<deleted>'))
    open(path, 'w').write(orig)
    print('%-9s %d/%d detected' % (arch, d, n), ''.join('\n    undetected line %d: %s -> %s' % x for x in missed))
print('total %d/%d' % (det, tot))
shutil.rmtree(tmp)
