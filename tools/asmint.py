#!/usr/bin/env python3
"""Subset interpreters for the checked-in assembly back ends of architectures that cannot be run
here (no emulator, no cross toolchain): RISC-V 32I/32E/64I, AArch64, ARMv7-M (Thumb-2), ARMv6 (ARM),
ARMv6-M (Thumb-1), m68k, Xtensa (call0 ABI).

Each interpreter executes the *preprocessed text of the file* (gcc -E with the target's predefined
macros, so that the library's own back-end selection picks it) on a register file and a byte memory,
starting at `ascon_permute` with the target's calling convention, and reports
  - the state afterwards (converted from the back end's documented layout to canonical bytes),
  - whether every callee-saved register and the stack pointer were restored,
  - whether any store fell outside the 40-byte state and the function's own stack frame.
Only the instructions these files use are implemented (13-17 mnemonics each); an unknown
instruction or operand form raises.  The interpreters have no independent reference: the argument
is joint - interpreter and file text together reproduce the TLA+ permutation for every starting
round on fixed, walking-bit and random states, which cancelling errors cannot explain.

usage as a program:  asmint.py <arch> <first_round> <80 hex digits>   -> prints 80 hex digits"""
import os, re, subprocess, sys

REPO = os.environ.get('REPO', '/repo')
M32 = 0xffffffff
M64 = 0xffffffffffffffff

ARCH = {
    'riscv32i': dict(file='ascon-asm-riscv32i.S', defs=['-D__riscv', '-D__riscv_xlen=32'], cls='RiscV', bits=32, layout='sliced32le'),
    'riscv32e': dict(file='ascon-asm-riscv32e.S', defs=['-D__riscv', '-D__riscv_xlen=32', '-D__riscv_32e'], cls='RiscV', bits=32, layout='sliced32le'),
    'riscv64i': dict(file='ascon-asm-riscv64i.S', defs=['-D__riscv', '-D__riscv_xlen=64'], cls='RiscV', bits=64, layout='word64le'),
    'armv8a': dict(file='ascon-asm-armv8a-64.S', defs=['-D__ARM_ARCH_8A', '-D__ARM_ARCH_ISA_A64'], cls='A64', bits=64, layout='word64le'),
    'armv7m': dict(file='ascon-asm-armv7m.S', defs=['-D__ARM_ARCH_ISA_THUMB=2', '-D__ARM_ARCH=7'], cls='Arm32', bits=32, layout='sliced32le'),
    'armv6': dict(file='ascon-asm-armv6.S', defs=['-D__ARM_ARCH=6'], cls='Arm32', bits=32, layout='sliced32le'),
    'armv6m': dict(file='ascon-asm-armv6m.S', defs=['-D__ARM_ARCH_ISA_THUMB=1', '-D__ARM_ARCH=6', '-D__ARM_ARCH_6M__'], cls='Arm32', bits=32, layout='sliced32le'),
    'm68k': dict(file='ascon-asm-m68k.S', defs=['-D__m68k__'], cls='M68k', bits=32, layout='sliced32be'),
    'xtensa': dict(file='ascon-asm-xtensa.S', defs=['-D__XTENSA__'], cls='Xtensa', bits=32, layout='word64le'),
    'avr5': dict(file='src/core/ascon-asm-avr5.S', defs=['-DASCON_BACKEND_AVR5=1'], cls='Avr', bits=8, layout='bytes', entry='ascon_permute'),
    'avr5-x2-ms2': dict(file='src/masking/ascon-x2-asm-avr5.S', defs=['-DASCON_MASKED_X2_BACKEND_AVR5=1', '-DASCON_MASKED_MAX_SHARES=2'], cls='Avr', bits=8, layout='bytes', entry='ascon_x2_permute', shares=2, maxshares=2),
    'avr5-x2-ms3': dict(file='src/masking/ascon-x2-asm-avr5.S', defs=['-DASCON_MASKED_X2_BACKEND_AVR5=1', '-DASCON_MASKED_MAX_SHARES=3'], cls='Avr', bits=8, layout='bytes', entry='ascon_x2_permute', shares=2, maxshares=3),
    'avr5-x3': dict(file='src/masking/ascon-x3-asm-avr5.S', defs=['-DASCON_MASKED_X3_BACKEND_AVR5=1', '-DASCON_MASKED_MAX_SHARES=3'], cls='Avr', bits=8, layout='bytes', entry='ascon_x3_permute', shares=3, maxshares=3),
    # the same files under the other preprocessor configurations they contain
    'm68k-coldfire': dict(file='ascon-asm-m68k.S', defs=['-D__m68k__', '-D__mcoldfire__'], cls='M68k', bits=32, layout='sliced32be'),
    'xtensa-windowed': dict(file='ascon-asm-xtensa.S', defs=['-D__XTENSA__', '-D__XTENSA_WINDOWED_ABI__'], cls='Xtensa', bits=32, layout='word64le'),
    'xtensa-esp8266': dict(file='ascon-asm-xtensa.S', defs=['-D__XTENSA__', '-DESP8266'], cls='Xtensa', bits=32, layout='word64le'),
    'riscv32i-pic': dict(file='ascon-asm-riscv32i.S', defs=['-D__riscv', '-D__riscv_xlen=32', '-D__riscv_cmodel_pic'], cls='RiscV', bits=32, layout='sliced32le'),
}


class AsmError(Exception):
    pass


def discover_variants():
    """every macro a file tests in #if / #ifdef / #ifndef (other than the back-end selection and the macros its base
    configuration already defines) gives further configurations of that file: each macro alone, and all together"""
    found = {}
    for arch, a in list(ARCH.items()):
        if '-' in arch or a['cls'] == 'Avr': continue
        src = '%s/src/core/%s' % (REPO, a['file'])
        try: text = open(src).read()
        except OSError: continue
        names = set()
        for line in text.split('\n'):
            if not re.match(r'^\s*#\s*(if|ifdef|ifndef|elif)\b', line): continue
            names |= set(re.findall(r'defined\s*\(\s*(\w+)\s*\)', line))
            m = re.match(r'^\s*#\s*ifn?def\s+(\w+)', line)
            if m: names.add(m.group(1))
        base = set(d[2:].split('=')[0] for d in a['defs'])
        names = sorted(n for n in names if not n.startswith('ASCON_') and n not in base and n not in ('__APPLE__', '__CYGWIN__', '_WIN32', '_WIN64', '__ELF__'))
        combos = [[n] for n in names] + ([names] if len(names) > 1 else [])
        for combo in combos:
            key = arch + '-' + '+'.join(n.strip('_').lower() for n in combo)
            if any(set(v['defs']) == set(a['defs'] + ['-D%s=1' % n for n in combo]) or set(v['defs']) == set(a['defs'] + ['-D%s' % n for n in combo]) for v in ARCH.values() if v['file'] == a['file']): continue
            found[key] = dict(a, defs=a['defs'] + ['-D%s=1' % n for n in combo])
    return found


def preprocess(arch):
    a = ARCH[arch]
    src = '%s/src/core/%s' % (REPO, a['file'])
    p = subprocess.run(['gcc', '-E', '-P', '-undef', '-x', 'assembler-with-cpp', '-I%s/src/core' % REPO] + a['defs'] + [src],
                       stdout=subprocess.PIPE, stderr=subprocess.PIPE)
    if p.returncode != 0:
        raise AsmError('preprocessing failed: ' + p.stderr.decode()[-300:])
    return p.stdout.decode()


def parse(text, comment='#'):
    """-> (instructions [(mnemonic, [operands], source line)], labels {name: index}, data {label: [words]})"""
    ins, labels = [], {}
    pending_data = None
    data = {}
    for raw in text.split('\n'):
        line = raw.split('//')[0]
        line = re.sub(r'/\*.*?\*/', '', line).strip()
        if not line:
            continue
        while True:
            m = re.match(r'^([.\w$]+):\s*(.*)$', line)
            if not m:
                break
            labels[m.group(1)] = len(ins)
            pending_data = m.group(1)
            line = m.group(2).strip()
        if not line:
            continue
        if line.startswith('.'):
            d = line.split(None, 1)
            if d[0] in ('.word', '.long', '.4byte') and pending_data is not None:
                data.setdefault(pending_data, []).extend(x.strip() for x in d[1].split(','))
            continue
        parts = line.split(None, 1)
        mn = parts[0].lower()
        ops = split_ops(parts[1]) if len(parts) > 1 else []
        ins.append((mn, ops, raw.strip()))
    return ins, labels, data


def split_ops(s):
    out, depth, cur = [], 0, ''
    for ch in s:
        if ch in '([{':
            depth += 1
        if ch in ')]}':
            depth -= 1
        if ch == ',' and depth == 0:
            out.append(cur.strip()); cur = ''
        else:
            cur += ch
    if cur.strip():
        out.append(cur.strip())
    return out


def imm(s):
    s = s.strip().lstrip('#')
    return int(s, 0)


class Machine:
    STACK = 0x7ff000
    STATE = 0x100000
    SP_ALIGN = 1

    def __init__(self, arch):
        self.arch = arch
        self.a = ARCH[arch]
        self.ins, self.labels, self.data = parse(preprocess(arch))
        if 'ascon_permute' not in self.labels:
            raise AsmError('no ascon_permute label in ' + self.a['file'])
        self.mask = M64 if self.a['bits'] == 64 else M32

    # ---- memory with access recording
    def reset_mem(self):
        self.mem = {}
        self.stores = []
        self.loads = []

    def owned(self, addr, n, store):
        """the access lies in the 40-byte state or in the function's own frame: at or above the stack
        pointer AT THE TIME of the access (memory below it belongs to interrupt and signal handlers) and
        below the stack pointer at entry (loads may also reach the caller-built argument area)"""
        if self.STATE <= addr and addr + n <= self.STATE + 40: return True
        top = self.STACK + (self.caller_area if not store else 0)
        return self.cur_sp() <= addr and addr + n <= top

    def ld(self, addr, n, big=False):
        self.loads.append((addr, n))
        if not self.setting_up and not self.owned(addr, n, False): self.bad_access.append(('load', addr, n))
        b = [self.mem.get(addr + i, 0) for i in range(n)]
        return int.from_bytes(bytes(b), 'big' if big else 'little')

    def st(self, addr, n, val, big=False):
        self.stores.append((addr, n))
        if not self.setting_up and not self.owned(addr, n, True): self.bad_access.append(('store', addr, n))
        for i, x in enumerate((val & ((1 << (8 * n)) - 1)).to_bytes(n, 'big' if big else 'little')):
            self.mem[addr + i] = x

    # ---- state layout conversions
    def put_state(self, st):
        lay = self.a['layout']
        for i in range(5):
            x = int.from_bytes(st[8 * i: 8 * i + 8], 'big')
            if lay == 'word64le':
                for j, b in enumerate(x.to_bytes(8, 'little')):
                    self.mem[self.STATE + 8 * i + j] = b
            else:
                e = o = 0
                for k in range(32):
                    e |= ((x >> (2 * k)) & 1) << k
                    o |= ((x >> (2 * k + 1)) & 1) << k
                order = 'little' if lay == 'sliced32le' else 'big'
                for j, b in enumerate(e.to_bytes(4, order)):
                    self.mem[self.STATE + 8 * i + j] = b
                for j, b in enumerate(o.to_bytes(4, order)):
                    self.mem[self.STATE + 8 * i + 4 + j] = b

    def get_state(self):
        lay = self.a['layout']
        out = b''
        for i in range(5):
            raw = bytes(self.mem.get(self.STATE + 8 * i + j, 0) for j in range(8))
            if lay == 'word64le':
                x = int.from_bytes(raw, 'little')
            else:
                order = 'little' if lay == 'sliced32le' else 'big'
                e = int.from_bytes(raw[:4], order); o = int.from_bytes(raw[4:], order)
                x = 0
                for k in range(32):
                    x |= ((e >> k) & 1) << (2 * k)
                    x |= ((o >> k) & 1) << (2 * k + 1)
            out += x.to_bytes(8, 'big')
        return out

    def run(self, st, first_round, dirty=0):
        """returns dict(out=bytes, regs=0/1, sp=0/1, guard=0/1, steps=n)"""
        self.reset_mem()
        self.put_state(st)
        self.bad_access = []; self.setting_up = True
        self.setup(first_round, dirty)
        self.setting_up = False
        pc = self.labels['ascon_permute']
        steps = 0
        self.done = False
        while not self.done:
            if pc >= len(self.ins):
                raise AsmError('ran off the end')
            mn, ops, raw = self.ins[pc]
            npc = self.step(mn, ops, raw, pc)
            pc = pc + 1 if npc is None else npc
            steps += 1
            if steps > 200000:
                raise AsmError('no termination')
            # the ABI's stack alignment holds at every instruction boundary (an interrupt or signal may arrive)
            if self.SP_ALIGN > 1 and self.cur_sp() % self.SP_ALIGN: self.bad_access.append(('sp-misaligned', self.cur_sp(), self.SP_ALIGN))
        guard = 0 if self.bad_access else 1
        regs, sp = self.check_abi()
        return dict(out=self.get_state(), regs=regs, sp=sp, guard=guard, steps=steps, bad=self.bad_access[:4])

    def run_free(self):
        """ascon_backend_free(state): whatever it wipes in registers, it keeps the callee-saved ones, the stack pointer
        and all memory outside its own frame"""
        if 'ascon_backend_free' not in self.labels: return None
        self.reset_mem(); self.put_state(bytes(range(40)))
        self.bad_access = []; self.setting_up = True; self.setup(0, 0); self.setting_up = False
        before = dict(self.mem)
        pc = self.labels['ascon_backend_free']; steps = 0; self.done = False
        while not self.done:
            if pc >= len(self.ins): raise AsmError('ran off the end')
            mn, ops, raw = self.ins[pc]
            npc = self.step(mn, ops, raw, pc); pc = pc + 1 if npc is None else npc; steps += 1
            if steps > 10000: raise AsmError('no termination')
        regs, sp = self.check_abi()
        state_same = all(self.mem.get(self.STATE + i, 0) == before.get(self.STATE + i, 0) for i in range(40))
        return dict(regs=regs, sp=sp, guard=1 if (not self.bad_access and state_same) else 0, steps=steps)

    def target(self, label):
        if label not in self.labels:
            raise AsmError('unknown label ' + label)
        return self.labels[label]


# ------------------------------------------------------------------------------------------ RISC-V
class RiscV(Machine):
    ABI = {'zero': 0, 'ra': 1, 'sp': 2, 'gp': 3, 'tp': 4, 't0': 5, 't1': 6, 't2': 7, 's0': 8, 'fp': 8, 's1': 9,
           'a0': 10, 'a1': 11, 'a2': 12, 'a3': 13, 'a4': 14, 'a5': 15, 'a6': 16, 'a7': 17,
           's2': 18, 's3': 19, 's4': 20, 's5': 21, 's6': 22, 's7': 23, 's8': 24, 's9': 25, 's10': 26, 's11': 27,
           't3': 28, 't4': 29, 't5': 30, 't6': 31}
    SAVED = [8, 9] + list(range(18, 28)) + [3, 4]
    caller_area = 0
    SP_ALIGN = 16            # RV32I/RV64I psABI (ILP32E: 4, set in setup)

    def reg(self, n):
        n = n.strip()
        if n in self.ABI:
            return self.ABI[n]
        if re.match(r'^x\d+$', n):
            return int(n[1:])
        raise AsmError('register ' + n)

    def setup(self, r, dirty):
        nreg = 16 if self.arch == 'riscv32e' else 32
        self.nreg = nreg
        self.SP_ALIGN = 4 if self.arch == 'riscv32e' else 16
        self.x = [(0x5a5a0000 + 0x101 * i) & self.mask for i in range(32)]
        self.x[0] = 0
        self.x[2] = self.STACK
        self.x[10] = self.STATE
        self.x[11] = (r | (dirty << 8)) & self.mask if dirty else r
        self.x[1] = 0xdead0000
        self.saved0 = list(self.x)
        self.frame_low = self.STACK - 256

    def cur_sp(self): return self.x[2]

    def rd(self, n):
        i = self.reg(n)
        if i >= self.nreg:
            raise AsmError('register %s does not exist on RV32E' % n)
        return self.x[i]

    def wr(self, n, v):
        i = self.reg(n)
        if i >= self.nreg:
            raise AsmError('register %s does not exist on RV32E' % n)
        if i != 0:
            self.x[i] = v & self.mask

    def memop(self, s):
        m = re.match(r'^(-?\w*)\((\w+)\)$', s.replace(' ', ''))
        if not m:
            raise AsmError('memory operand ' + s)
        return (self.rd(m.group(2)) + (int(m.group(1), 0) if m.group(1) else 0)) & self.mask

    def sx(self, v, bits=12):
        v = int(v, 0)
        if not -(1 << (bits - 1)) <= v < (1 << (bits - 1)) and not 0 <= v < (1 << bits):
            raise AsmError('immediate out of range ' + str(v))
        return v & self.mask

    def step(self, mn, o, raw, pc):
        B = self.a['bits']
        if mn == 'xor': self.wr(o[0], self.rd(o[1]) ^ self.rd(o[2]))
        elif mn == 'and': self.wr(o[0], self.rd(o[1]) & self.rd(o[2]))
        elif mn == 'or': self.wr(o[0], self.rd(o[1]) | self.rd(o[2]))
        elif mn == 'not': self.wr(o[0], ~self.rd(o[1]))
        elif mn == 'andn': self.wr(o[0], self.rd(o[1]) & ~self.rd(o[2]))
        elif mn == 'orn': self.wr(o[0], self.rd(o[1]) | (~self.rd(o[2]) & self.mask))
        elif mn == 'xnor': self.wr(o[0], ~(self.rd(o[1]) ^ self.rd(o[2])))
        elif mn in ('rori', 'ror', 'rol'):
            v = self.rd(o[1]); sh = (int(o[2], 0) if mn == 'rori' else self.rd(o[2])) % B
            if mn == 'rol': sh = (B - sh) % B
            self.wr(o[0], ((v >> sh) | (v << (B - sh))) & self.mask if sh else v)
        elif mn == 'xori': self.wr(o[0], self.rd(o[1]) ^ self.sx(o[2]))
        elif mn == 'addi': self.wr(o[0], self.rd(o[1]) + self.sx(o[2]))
        elif mn == 'li': self.wr(o[0], int(o[1], 0))
        elif mn == 'slli':
            sh = int(o[2], 0)
            if not 0 <= sh < B: raise AsmError('shift ' + raw)
            self.wr(o[0], self.rd(o[1]) << sh)
        elif mn == 'srli':
            sh = int(o[2], 0)
            if not 0 <= sh < B: raise AsmError('shift ' + raw)
            self.wr(o[0], self.rd(o[1]) >> sh)
        elif mn == 'lw':
            v = self.ld(self.memop(o[1]), 4)
            self.wr(o[0], v if B == 32 or v < 0x80000000 else v | 0xffffffff00000000)
        elif mn == 'sw': self.st(self.memop(o[1]), 4, self.rd(o[0]))
        elif mn == 'ld':
            if B != 64: raise AsmError('ld on RV32')
            self.wr(o[0], self.ld(self.memop(o[1]), 8))
        elif mn == 'sd':
            if B != 64: raise AsmError('sd on RV32')
            self.st(self.memop(o[1]), 8, self.rd(o[0]))
        elif mn == 'beq':
            if self.rd(o[0]) == self.rd(o[1]): return self.target(o[2])
        elif mn == 'j': return self.target(o[0])
        elif mn == 'ret':
            self.done = True
        else:
            raise AsmError('unsupported RISC-V instruction: ' + raw)
        return None

    def check_abi(self):
        regs = 1
        for i in self.SAVED:
            if i < self.nreg and self.x[i] != self.saved0[i]: regs = 0
        if self.x[1] != self.saved0[1]: regs = 0       # ra must still hold the return address
        return regs, 1 if self.x[2] == self.STACK else 0


# ------------------------------------------------------------------------------------------ AArch64
class A64(Machine):
    caller_area = 0
    SP_ALIGN = 16

    def setup(self, r, dirty):
        self.x = [(0x1111111100000000 + 0x01010101 * i) & M64 for i in range(32)]
        self.x[0] = self.STATE
        self.x[1] = (r | (dirty << 8)) & M64     # AAPCS64 leaves bits 8.. of a uint8_t argument unspecified
        self.sp = self.STACK
        self.x[30] = 0xdead0000
        self.saved0 = list(self.x)
        self.z = False
        self.frame_low = self.STACK - 256

    def cur_sp(self): return self.sp

    def rr(self, n):
        n = n.strip().lower()
        if n == 'xzr': return 0
        if n == 'wzr': return 0
        if n == 'sp': return self.sp
        if n[0] == 'x': return self.x[int(n[1:])]
        if n[0] == 'w': return self.x[int(n[1:])] & M32
        raise AsmError('register ' + n)

    def ww(self, n, v):
        n = n.strip().lower()
        if n in ('xzr', 'wzr'): return
        if n == 'sp': self.sp = v & M64; return
        if n[0] == 'x': self.x[int(n[1:])] = v & M64
        elif n[0] == 'w': self.x[int(n[1:])] = v & M32
        else: raise AsmError('register ' + n)

    def width(self, n): return 32 if n.strip().lower()[0] == 'w' else 64

    def op2(self, ops, k):
        """register operand k with an optional shift/rotate modifier in ops[k+1]"""
        v = self.rr(ops[k]) if not ops[k].startswith('#') else imm(ops[k])
        w = self.width(ops[k]) if not ops[k].startswith('#') else 64
        if len(ops) > k + 1:
            m = re.match(r'^(ror|lsl|lsr)\s+#(\d+)$', ops[k + 1].strip().lower())
            if not m: raise AsmError('modifier ' + ops[k + 1])
            sh = int(m.group(2)); msk = (1 << w) - 1
            if m.group(1) == 'ror': v = ((v >> sh) | (v << (w - sh))) & msk
            elif m.group(1) == 'lsl': v = (v << sh) & msk
            else: v = v >> sh
        return v

    def addr(self, s, ops, k):
        s = s.strip()
        m = re.match(r'^\[(\w+)(?:,\s*#?(-?\w+))?\](!?)$', s)
        if not m: raise AsmError('address ' + s)
        base = self.rr(m.group(1)); off = int(m.group(2), 0) if m.group(2) else 0
        post = None
        if m.group(3) == '!':
            self.ww(m.group(1), base + off); return (base + off) & M64
        if len(ops) > k + 1 and ops[k + 1].strip().startswith('#'):     # post-index
            a = base; self.ww(m.group(1), base + imm(ops[k + 1])); return a
        return (base + off) & M64

    def step(self, mn, o, raw, pc):
        if mn == 'eor': self.ww(o[0], self.rr(o[1]) ^ self.op2(o, 2))
        elif mn == 'bic': self.ww(o[0], self.rr(o[1]) & ~self.op2(o, 2))
        elif mn == 'and': self.ww(o[0], self.rr(o[1]) & self.op2(o, 2))
        elif mn == 'mvn': self.ww(o[0], ~self.op2(o, 1))
        elif mn == 'mov': self.ww(o[0], self.op2(o, 1))
        elif mn == 'ror':
            w = self.width(o[0]); sh = imm(o[2]); v = self.rr(o[1])
            self.ww(o[0], ((v >> sh) | (v << (w - sh))) & ((1 << w) - 1))
        elif mn == 'ldr' and o[1].strip().startswith('='):
            self.ww(o[0], int(o[1].strip()[1:], 0))
        elif mn == 'ldr':
            n = 4 if self.width(o[0]) == 32 else 8
            self.ww(o[0], self.ld(self.addr(o[1], o, 1), n))
        elif mn == 'str':
            n = 4 if self.width(o[0]) == 32 else 8
            self.st(self.addr(o[1], o, 1), n, self.rr(o[0]))
        elif mn == 'ldp':
            a = self.addr(o[2], o, 2); self.ww(o[0], self.ld(a, 8)); self.ww(o[1], self.ld(a + 8, 8))
        elif mn == 'stp':
            v0, v1 = self.rr(o[0]), self.rr(o[1])
            a = self.addr(o[2], o, 2); self.st(a, 8, v0); self.st(a + 8, 8, v1)
        elif mn == 'cmp': self.z = self.rr(o[0]) == (imm(o[1]) if o[1].startswith('#') else self.rr(o[1]))
        elif mn == 'beq':
            if self.z: return self.target(o[0])
        elif mn == 'b': return self.target(o[0])
        elif mn == 'ret': self.done = True
        else: raise AsmError('unsupported AArch64 instruction: ' + raw)
        return None

    def check_abi(self):
        regs = 1
        for i in list(range(19, 31)):
            if self.x[i] != self.saved0[i]: regs = 0
        return regs, 1 if self.sp == self.STACK else 0


# ------------------------------------------------------------------------------------------ ARM 32 (ARM, Thumb-2, Thumb-1)
class Arm32(Machine):
    caller_area = 0
    SP_ALIGN = 4             # AAPCS32: a multiple of 4 at all times (8 at public interfaces = entry and exit, checked by sp restored)
    NAMES = {'sp': 13, 'lr': 14, 'pc': 15, 'ip': 12, 'fp': 11, 'sl': 10}

    def setup(self, r, dirty):
        self.r = [(0x22220000 + 0x101 * i) & M32 for i in range(16)]
        self.r[0] = self.STATE; self.r[1] = (r | (dirty << 8)) & M32
        self.r[13] = self.STACK; self.r[14] = 0xdead0001
        self.saved0 = list(self.r)
        self.z = False; self.c = False
        self.frame_low = self.STACK - 256

    def cur_sp(self): return self.r[13]

    def ri(self, n):
        n = n.strip().lower()
        if n in self.NAMES: return self.NAMES[n]
        if re.match(r'^r\d+$', n): return int(n[1:])
        raise AsmError('register ' + n)

    def val(self, s):
        s = s.strip()
        return imm(s) & M32 if s.startswith('#') else self.r[self.ri(s)]

    def shifted(self, ops, k):
        v = self.val(ops[k])
        if len(ops) > k + 1:
            m = re.match(r'^(ror|lsl|lsr)\s+#(\d+)$', ops[k + 1].strip().lower())
            if not m: raise AsmError('modifier ' + ops[k + 1])
            sh = int(m.group(2))
            if m.group(1) == 'ror': v = ((v >> sh) | (v << (32 - sh))) & M32
            elif m.group(1) == 'lsl': v = (v << sh) & M32
            else: v >>= sh
        return v

    def wr(self, n, v, flags=False):
        i = self.ri(n); self.r[i] = v & M32
        if flags: self.z = (v & M32) == 0

    CODE = 0x40000000

    def addr(self, s):
        m = re.match(r'^\[(\w+)(?:,\s*(#?-?\w+))?\]$', s.strip())
        if not m: raise AsmError('address ' + s)
        off = 0
        if m.group(2):
            t = m.group(2)
            off = self.r[self.ri(t)] if re.match(r'^(r\d+|ip|fp|sl|lr)$', t.lower()) else int(t.lstrip('#'), 0)
        return (self.r[self.ri(m.group(1))] + off) & M32

    def code_word(self, addr):
        """a 32-bit load from the text section: only the file's own .word tables can be read"""
        for lab, words in self.data.items():
            base = self.CODE + 4 * self.labels[lab]
            k = (addr - base) // 4
            if addr >= base and (addr - base) % 4 == 0 and k < len(words):
                m = re.match(r'^([.\w$]+)\s*-\s*([.\w$]+)$', words[k])
                if m: return (4 * (self.target(m.group(1)) - self.target(m.group(2)))) & M32
                return int(words[k], 0) & M32
        raise AsmError('load from text outside a data table: 0x%x' % addr)

    def reglist(self, s):
        s = s.strip().strip('{}'); out = []
        for part in s.split(','):
            part = part.strip()
            if '-' in part:
                a, b = part.split('-'); out += list(range(self.ri(a), self.ri(b) + 1))
            else: out.append(self.ri(part))
        return sorted(out)

    def step(self, mn, o, raw, pc):
        s = mn.endswith('s') and mn not in ('ands', 'eors', 'movs', 'mvns', 'rors', 'lsls', 'bics', 'adds', 'subs') and False
        base = mn[:-1] if mn in ('eors', 'ands', 'movs', 'mvns', 'rors', 'lsls', 'bics', 'adds', 'subs') else mn
        fl = mn != base
        two = len(o) == 2 or (len(o) == 3 and re.match(r'^(ror|lsl|lsr)\s', o[2].strip().lower()) is not None and base in ('eor', 'bic', 'and'))
        if base in ('eor', 'bic', 'and'):
            if len(o) >= 3 and not re.match(r'^(ror|lsl|lsr)\s', o[2].strip().lower()):
                a = self.val(o[1]); b = self.shifted(o, 2)
            else:
                a = self.val(o[0]); b = self.shifted(o, 1)
            v = a ^ b if base == 'eor' else (a & ~b if base == 'bic' else a & b)
            self.wr(o[0], v, fl)
        elif base == 'mvn': self.wr(o[0], ~self.shifted(o, 1), fl)
        elif base == 'mov' and o[0].strip().lower() == 'pc':
            v = self.val(o[1])
            if v < self.CODE or (v - self.CODE) % 4 or (v - self.CODE) // 4 >= len(self.ins): raise AsmError('computed branch to 0x%x' % v)
            return (v - self.CODE) // 4
        elif base == 'mov': self.wr(o[0], self.shifted(o, 1), fl)
        elif base == 'ror':
            if len(o) == 3: v = self.val(o[1]); sh = self.val(o[2]) & 31
            else: v = self.val(o[0]); sh = self.val(o[1]) & 31
            self.wr(o[0], ((v >> sh) | (v << (32 - sh))) & M32 if sh else v, fl)
        elif base == 'lsl':
            if len(o) == 3: v = self.val(o[1]); sh = self.val(o[2])
            else: v = self.val(o[0]); sh = self.val(o[1])
            self.wr(o[0], (v << sh) & M32, fl)
        elif base == 'add':
            if len(o) == 3: self.wr(o[0], self.val(o[1]) + self.val(o[2]), fl)
            else: self.wr(o[0], self.val(o[0]) + self.val(o[1]), fl)
        elif base == 'sub':
            if len(o) == 3: self.wr(o[0], self.val(o[1]) - self.val(o[2]), fl)
            else: self.wr(o[0], self.val(o[0]) - self.val(o[1]), fl)
        elif mn == 'ldr':
            if o[1].strip().startswith('='): self.wr(o[0], imm(o[1].strip()[1:]))
            else:
                a = self.addr(','.join(o[1:]))
                self.wr(o[0], self.code_word(a) if a >= self.CODE and a < self.CODE + 4 * len(self.ins) + 4 else self.ld(a, 4))
        elif mn == 'str': self.st(self.addr(','.join(o[1:])), 4, self.r[self.ri(o[0])])
        elif mn == 'push':
            regs = self.reglist(','.join(o))
            self.r[13] = (self.r[13] - 4 * len(regs)) & M32
            for k, i in enumerate(regs): self.st(self.r[13] + 4 * k, 4, self.r[i])
        elif mn == 'pop':
            regs = self.reglist(','.join(o))
            for k, i in enumerate(regs):
                v = self.ld(self.r[13] + 4 * k, 4)
                if i == 15:
                    self.ret_to = v; self.done = True
                else: self.r[i] = v
            self.r[13] = (self.r[13] + 4 * len(regs)) & M32
        elif mn == 'cmp':
            a, b = self.val(o[0]), self.val(o[1]); self.z = a == b; self.c = a >= b
        elif mn == 'beq':
            if self.z: return self.target(o[0])
        elif mn == 'bhi':
            if self.c and not self.z: return self.target(o[0])
        elif mn == 'b': return self.target(o[0])
        elif mn == 'bx':
            if self.ri(o[0]) == 14: self.ret_to = self.r[14]; self.done = True
            else: raise AsmError('bx ' + raw)
        elif mn == 'adr':
            # address of a label: encode the instruction index so that a computed branch can use it
            self.wr(o[0], self.CODE + 4 * self.target(o[1]))
        elif mn == 'bl':
            self.r[14] = (self.CODE + 4 * (pc + 1)) | 1
            return self.target(o[0])
        else: raise AsmError('unsupported ARM instruction: ' + raw)
        return None

    def check_abi(self):
        regs = 1
        for i in range(4, 12):
            if self.r[i] != self.saved0[i]: regs = 0
        if getattr(self, 'ret_to', self.saved0[14]) != self.saved0[14]: regs = 0
        return regs, 1 if self.r[13] == self.STACK else 0


# ------------------------------------------------------------------------------------------ m68k
class M68k(Machine):
    SP_ALIGN = 2
    caller_area = 12       # return address and the two stack arguments belong to the caller's frame

    def setup(self, r, dirty):
        self.d = [(0x33330000 + 0x111 * i) & M32 for i in range(8)]
        self.a_ = [(0x44440000 + 0x111 * i) & M32 for i in range(8)]
        self.a_[7] = self.STACK
        # cdecl: 4(sp) = state, 8(sp) = first_round (pushed as a 32-bit int)
        self.st(self.STACK, 4, 0xdead0000, big=True); self.st(self.STACK + 4, 4, self.STATE, big=True); self.st(self.STACK + 8, 4, r & 0xff, big=True)
        self.stores = []
        self.saved_d = list(self.d); self.saved_a = list(self.a_)
        self.z = False
        self.frame_low = self.STACK - 512

    def cur_sp(self): return self.a_[7]

    def get(self, s, size=4):
        s = s.strip()
        if s.startswith('#'): return imm(s) & M32
        m = re.match(r'^%?([da])(\d)$', s.lower())
        if m: return (self.d if m.group(1) == 'd' else self.a_)[int(m.group(2))]
        if s.lower() in ('%sp', 'sp'): return self.a_[7]
        if s.lower() in ('%fp', 'fp'): return self.a_[6]
        return self.ld(self.ea(s), size, big=True)

    def ea(self, s):
        s = s.strip().lower()
        m = re.match(r'^(-?\w*)\(%?(\w+)\)$', s)
        if m:
            base = self.get('%' + m.group(2)) if m.group(2) in ('sp', 'fp') else self.get(m.group(2))
            return (base + (int(m.group(1), 0) if m.group(1) else 0)) & M32
        m = re.match(r'^\(%?(\w+)\)\+$', s)
        if m:
            r = m.group(1); base = self.get(r if r not in ('sp', 'fp') else '%' + r); self.put('%' + r if r in ('sp', 'fp') else r, base + 4); return base
        m = re.match(r'^-\(%?(\w+)\)$', s)
        if m:
            r = m.group(1); base = (self.get(r if r not in ('sp', 'fp') else '%' + r) - 4) & M32; self.put('%' + r if r in ('sp', 'fp') else r, base); return base
        raise AsmError('effective address ' + s)

    def put(self, s, v, size=4):
        s = s.strip(); v &= M32
        m = re.match(r'^%?([da])(\d)$', s.lower())
        if m:
            (self.d if m.group(1) == 'd' else self.a_)[int(m.group(2))] = v; return
        if s.lower() in ('%sp', 'sp'): self.a_[7] = v; return
        if s.lower() in ('%fp', 'fp'): self.a_[6] = v; return
        self.st(self.ea(s), size, v, big=True)

    def step(self, mn, o, raw, pc):
        if mn in ('move.l', 'movea.l'): self.put(o[1], self.get(o[0]))
        elif mn == 'moveq.l' or mn == 'moveq':
            v = imm(o[0]); self.put(o[1], v & M32 if v >= 0 else (v + (1 << 32)))
        elif mn in ('eor.l', 'eori.l'): self.put(o[1], self.get(o[1]) ^ self.get(o[0]))
        elif mn == 'or.l': self.put(o[1], self.get(o[1]) | self.get(o[0]))
        elif mn == 'and.l': self.put(o[1], self.get(o[1]) & self.get(o[0]))
        elif mn == 'not.l': self.put(o[0], ~self.get(o[0]))
        elif mn in ('ror.l', 'lsr.l', 'lsl.l'):
            sh = self.get(o[0]) & 63; v = self.get(o[1])
            if o[0].startswith('#') and not 1 <= imm(o[0]) <= 8: raise AsmError('immediate shift count out of range: ' + raw)
            if mn == 'ror.l': sh &= 31; v = ((v >> sh) | (v << (32 - sh))) & M32 if sh else v
            elif mn == 'lsr.l': v = v >> sh if sh < 32 else 0
            else: v = (v << sh) & M32 if sh < 32 else 0
            self.put(o[1], v)
        elif mn == 'cmpi.l': self.z = self.get(o[1]) == (imm(o[0]) & M32)
        elif mn in ('jbeq', 'beq', 'jeq'):
            if self.z: return self.target(o[0])
        elif mn in ('jmp', 'jra', 'bra'): return self.target(o[0])
        elif mn == 'link.w':
            self.a_[7] = (self.a_[7] - 4) & M32; self.st(self.a_[7], 4, self.get(o[0]), big=True)
            self.put(o[0], self.a_[7]); self.a_[7] = (self.a_[7] + imm(o[1])) & M32
        elif mn == 'unlk':
            self.a_[7] = self.get(o[0]); self.put(o[0], self.ld(self.a_[7], 4, big=True)); self.a_[7] = (self.a_[7] + 4) & M32
        elif mn == 'movem.l':
            raise AsmError('movem: ' + raw)
        elif mn == 'rts':
            self.ret_to = self.ld(self.a_[7], 4, big=True); self.a_[7] = (self.a_[7] + 4) & M32; self.done = True
        else: raise AsmError('unsupported m68k instruction: ' + raw)
        return None

    def check_abi(self):
        regs = 1
        for i in range(2, 8):
            if self.d[i] != self.saved_d[i]: regs = 0
        for i in range(2, 7):
            if self.a_[i] != self.saved_a[i]: regs = 0
        if getattr(self, 'ret_to', 0) != 0xdead0000: regs = 0
        return regs, 1 if self.a_[7] == self.STACK + 4 else 0


# ------------------------------------------------------------------------------------------ Xtensa (call0 ABI)
class Xtensa(Machine):
    caller_area = 0
    SP_ALIGN = 16

    def setup(self, r, dirty):
        self.ar = [(0x55550000 + 0x101 * i) & M32 for i in range(16)]
        self.ar[1] = self.STACK; self.ar[2] = self.STATE; self.ar[3] = (r | (dirty << 8)) & M32; self.ar[0] = 0xdead0000
        self.saved0 = list(self.ar); self.sar = 0
        self.frame_low = self.STACK - 256
        self.windowed = any(d.startswith('-D__XTENSA_WINDOWED_ABI__') for d in self.a['defs'])
        self.entry = None

    def cur_sp(self): return self.ar[1]

    def ri(self, n):
        n = n.strip().lower()
        if n == 'sp': return 1
        if re.match(r'^a\d+$', n): return int(n[1:])
        raise AsmError('register ' + n)

    def step(self, mn, o, raw, pc):
        R = self.ar
        if mn == 'xor': R[self.ri(o[0])] = R[self.ri(o[1])] ^ R[self.ri(o[2])]
        elif mn == 'and': R[self.ri(o[0])] = R[self.ri(o[1])] & R[self.ri(o[2])]
        elif mn == 'or': R[self.ri(o[0])] = R[self.ri(o[1])] | R[self.ri(o[2])]
        elif mn in ('mov', 'mov.n'): R[self.ri(o[0])] = R[self.ri(o[1])]
        elif mn in ('movi', 'movi.n'): R[self.ri(o[0])] = int(o[1], 0) & M32
        elif mn in ('addi', 'addi.n'): R[self.ri(o[0])] = (R[self.ri(o[1])] + int(o[2], 0)) & M32
        elif mn == 'ssai':
            self.sar = int(o[0], 0)
            if not 0 <= self.sar <= 31: raise AsmError('ssai ' + raw)
        elif mn == 'src':      # funnel shift right of (as:at) by SAR
            v = ((R[self.ri(o[1])] << 32) | R[self.ri(o[2])]) >> self.sar
            R[self.ri(o[0])] = v & M32
        elif mn in ('l32i', 'l32i.n'): R[self.ri(o[0])] = self.ld((R[self.ri(o[1])] + int(o[2], 0)) & M32, 4)
        elif mn in ('s32i', 's32i.n'): self.st((R[self.ri(o[1])] + int(o[2], 0)) & M32, 4, R[self.ri(o[0])])
        elif mn == 'beqi':
            if R[self.ri(o[0])] == int(o[1], 0) & M32: return self.target(o[2])
        elif mn == 'beq':
            if R[self.ri(o[0])] == R[self.ri(o[1])]: return self.target(o[2])
        elif mn == 'beqz':
            if R[self.ri(o[0])] == 0: return self.target(o[1])
        elif mn == 'j': return self.target(o[0])
        elif mn in ('ret', 'ret.n'):
            if self.windowed: raise AsmError('call0 return in a windowed-ABI build: ' + raw)
            self.done = True
        elif mn in ('retw', 'retw.n', 'entry') and not self.windowed: raise AsmError('windowed ABI instruction in a call0 build: ' + raw)
        elif mn == 'entry':
            # the register window has rotated: a1 is the caller's stack pointer, a2.. the arguments
            if self.entry is not None or self.ri(o[0]) != 1: raise AsmError('entry: ' + raw)
            self.entry = int(o[1], 0); R[1] = (R[1] - self.entry) & M32
        elif mn in ('retw', 'retw.n'):
            if self.entry is None: raise AsmError('retw without entry')
            self.done = True
        else: raise AsmError('unsupported Xtensa instruction: ' + raw)
        return None

    def check_abi(self):
        if self.windowed:
            # the callee owns its whole window; a0 (return address and window increment) and a1 (the
            # window-overflow handlers spill below it) must be intact when retw executes
            return (1 if self.ar[0] == self.saved0[0] else 0), (1 if self.ar[1] == self.STACK - self.entry else 0)
        regs = 1
        for i in (0, 12, 13, 14, 15):
            if self.ar[i] != self.saved0[i]: regs = 0
        return regs, 1 if self.ar[1] == self.STACK else 0



# ------------------------------------------------------------------------------------------ AVR5 (whole function text)
class Avr(Machine):
    """executes the checked-in AVR5 text including prologue and epilogue (the generator's own interpreter, used
    for the semantics in checks/c18.py, runs the instruction list of the body only).  avr-gcc convention:
    arguments r25:r24, r23:r22, r21:r20; call-saved r2-r17, r28, r29; r1 = 0 at return; SP points at the next free
    byte (push stores, then decrements).  Interrupts: while SREG.I is set an interrupt may arrive after any
    instruction except the one following the instruction that set I; a handler pushes at SP, so SP must never
    rise above its value at entry nor point into memory the function still reads (its locals)."""
    caller_area = 2          # the return address pushed by the caller's call instruction

    def __init__(self, arch):
        self.arch = arch; self.a = ARCH[arch]
        src = '%s/%s' % (REPO, self.a['file'])
        text = ''.join(l for l in open(src).read().splitlines(True) if not l.startswith('#include'))
        p = subprocess.run(['gcc', '-E', '-P', '-undef', '-x', 'assembler-with-cpp'] + self.a['defs'] + ['-'], input=text.encode(), stdout=subprocess.PIPE, stderr=subprocess.PIPE)
        if p.returncode != 0: raise AsmError('preprocessing failed: ' + p.stderr.decode()[-300:])
        self.ins, self.labels, self.data = [], {}, {}
        self.numeric = {}          # numeric local labels: name -> list of instruction indices
        for raw in p.stdout.decode().split('\n'):
            line = raw.split(';')[0].strip()
            if not line or '=' in line and line.startswith('.L'): continue
            m = re.match(r'^(\d+):\s*(.*)$', line)
            if m: self.numeric.setdefault(m.group(1), []).append(len(self.ins)); line = m.group(2).strip()
            m = re.match(r'^([.\w$]+):\s*(.*)$', line)
            if m: self.labels[m.group(1)] = len(self.ins); line = m.group(2).strip()
            if not line or line.startswith('.'): continue
            parts = line.split(None, 1)
            self.ins.append((parts[0].lower(), split_ops(parts[1]) if len(parts) > 1 else [], raw.strip()))
        self.entry = self.a['entry']
        if self.entry not in self.labels: raise AsmError('no %s label in %s' % (self.entry, self.a['file']))

    # registers / flags
    def rn(self, s):
        m = re.match(r'^r(\d+)$', s.strip().lower())
        if not m or int(m.group(1)) > 31: raise AsmError('register ' + s)
        return int(m.group(1))

    def pair(self, lo): return self.r[lo] | (self.r[lo + 1] << 8)

    def setpair(self, lo, v): self.r[lo] = v & 255; self.r[lo + 1] = (v >> 8) & 255

    def cur_sp(self): return self.sp + 1        # the lowest address that holds something pushed

    def flags_logic(self, v):
        self.Z = v == 0; self.N = bool(v & 0x80); self.V = False

    def mem_ld(self, addr): return self.ld(addr, 1)

    def mem_st(self, addr, v): self.st(addr, 1, v)

    def in_regions(self, addr): return any(lo <= addr < hi for lo, hi in self.regions)

    def st(self, addr, n, val, big=False):
        Machine.st(self, addr, n, val, big)
        if hasattr(self, 'last_store'): self.last_store[addr] = self.now

    def ld(self, addr, n, big=False):
        v = Machine.ld(self, addr, n, big)
        if hasattr(self, 'segs') and not self.in_regions(addr) and addr <= self.entry_sp:
            # was there a moment after this byte was written at which an interrupt handler, pushing at the
            # stack pointer of that moment, would have overwritten it?
            t0 = self.last_store.get(addr, -1)
            for k, (t, spv, tk) in enumerate(self.segs):
                end = self.segs[k + 1][0] if k + 1 < len(self.segs) else self.now + 1
                if tk and spv >= addr and end > t0 + 1: self.int_unsafe.append((addr, spv, t)); break
        return v

    def ptr(self, s, store):
        """X, X+, -X, Y+q, Z+q ... -> address (with side effects on the pointer pair)"""
        s = s.strip().upper().replace(' ', '')
        base = {'X': 26, 'Y': 28, 'Z': 30}
        m = re.match(r'^([XYZ])\+$', s)
        if m: a = self.pair(base[m.group(1)]); self.setpair(base[m.group(1)], (a + 1) & 0xffff); return a
        m = re.match(r'^-([XYZ])$', s)
        if m: a = (self.pair(base[m.group(1)]) - 1) & 0xffff; self.setpair(base[m.group(1)], a); return a
        m = re.match(r'^([XYZ])(?:\+(\d+))?$', s)
        if m:
            q = int(m.group(2) or 0)
            if q > 63: raise AsmError('displacement ' + s)
            return (self.pair(base[m.group(1)]) + q) & 0xffff
        raise AsmError('pointer operand ' + s)

    def setup_call(self, args, dirty=0):
        self.r = [(0x40 + 7 * i) & 255 for i in range(32)]
        self.r[1] = 0
        for k, v in enumerate(args): self.setpair(24 - 2 * k, v)
        if dirty: self.r[23] = dirty & 255            # the byte above an 8-bit argument is unspecified
        self.sp = self.SP0
        # the caller's call pushed the return address
        self.mem[self.sp] = 0x34; self.mem[self.sp - 1] = 0x12; self.sp -= 2
        self.C = self.Z = self.N = self.V = self.H = self.T = False; self.I = True
        self.saved0 = list(self.r); self.entry_sp = self.sp
        self.STACK = self.sp + 1; self.int_delay = False; self.sp_bad = []; self.sreg_i_entry = self.I

    def run_call(self, args, dirty=0, max_steps=400000):
        self.bad_access = []; self.setting_up = False; self.loads = []; self.stores = []
        self.setup_call(args, dirty)
        pc = self.labels[self.entry]; steps = 0; self.done = False
        self.now = 0; self.last_store = {}; self.segs = [(0, self.sp, True)]; self.int_unsafe = []
        while not self.done:
            if pc >= len(self.ins): raise AsmError('ran off the end')
            mn, ops, raw = self.ins[pc]
            i_before = self.I
            npc = self.step(mn, ops, raw, pc)
            pc = pc + 1 if npc is None else npc
            steps += 1
            if steps > max_steps: raise AsmError('no termination')
            # an interrupt could be taken here?
            self.now = steps
            takeable = self.I and i_before and not self.done
            if takeable and self.sp > self.entry_sp: self.sp_bad.append((raw, self.sp))
            if (self.sp, takeable) != (self.segs[-1][1], self.segs[-1][2]): self.segs.append((steps, self.sp, takeable))
        return steps

    def step(self, mn, o, raw, pc):
        R = self.r
        if mn == 'eor': d = self.rn(o[0]); R[d] ^= R[self.rn(o[1])]; self.flags_logic(R[d])
        elif mn == 'and': d = self.rn(o[0]); R[d] &= R[self.rn(o[1])]; self.flags_logic(R[d])
        elif mn == 'or': d = self.rn(o[0]); R[d] |= R[self.rn(o[1])]; self.flags_logic(R[d])
        elif mn == 'com': d = self.rn(o[0]); R[d] ^= 0xff; self.flags_logic(R[d]); self.C = True
        elif mn == 'mov': R[self.rn(o[0])] = R[self.rn(o[1])]
        elif mn == 'movw':
            d, r = self.rn(o[0]), self.rn(o[1])
            if d % 2 or r % 2: raise AsmError('movw needs even registers: ' + raw)
            R[d], R[d + 1] = R[r], R[r + 1]
        elif mn == 'ldi':
            d = self.rn(o[0])
            if d < 16: raise AsmError('ldi needs r16-r31: ' + raw)
            R[d] = int(o[1], 0) & 255
        elif mn in ('lsl', 'rol'):
            d = self.rn(o[0]); c = self.C if mn == 'rol' else False
            v = (R[d] << 1) | (1 if c else 0); self.C = bool(v & 0x100); R[d] = v & 255; self.Z = R[d] == 0; self.N = bool(R[d] & 0x80)
        elif mn in ('lsr', 'ror'):
            d = self.rn(o[0]); c = self.C if mn == 'ror' else False
            self.C = bool(R[d] & 1); R[d] = (R[d] >> 1) | (0x80 if c else 0); self.Z = R[d] == 0; self.N = bool(R[d] & 0x80)
        elif mn == 'swap': d = self.rn(o[0]); R[d] = ((R[d] << 4) | (R[d] >> 4)) & 255
        elif mn in ('sub', 'sbc', 'subi', 'sbci'):
            d = self.rn(o[0])
            if mn in ('subi', 'sbci') and d < 16: raise AsmError('immediate needs r16-r31: ' + raw)
            k = (int(o[1], 0) & 255) if mn in ('subi', 'sbci') else R[self.rn(o[1])]
            c = 1 if (mn in ('sbc', 'sbci') and self.C) else 0
            v = R[d] - k - c; self.C = v < 0; v &= 255
            self.Z = (v == 0) and (self.Z if mn in ('sbc', 'sbci') else True); R[d] = v; self.N = bool(v & 0x80)
        elif mn == 'adc':
            d = self.rn(o[0]); v = R[d] + R[self.rn(o[1])] + (1 if self.C else 0); self.C = v > 255; R[d] = v & 255; self.Z = R[d] == 0
        elif mn in ('adiw', 'sbiw'):
            d = self.rn(o[0]); k = int(o[1], 0)
            if d not in (24, 26, 28, 30) or not 0 <= k <= 63: raise AsmError('adiw/sbiw operand: ' + raw)
            v = self.pair(d) + (k if mn == 'adiw' else -k); self.C = v < 0 or v > 0xffff; self.setpair(d, v & 0xffff); self.Z = (v & 0xffff) == 0
        elif mn == 'bst': self.T = bool(R[self.rn(o[0])] & (1 << int(o[1], 0)))
        elif mn == 'bld':
            d = self.rn(o[0]); b = 1 << int(o[1], 0); R[d] = (R[d] | b) if self.T else (R[d] & ~b & 255)
        elif mn == 'cpse':
            if R[self.rn(o[0])] == R[self.rn(o[1])]: return pc + 2
        elif mn == 'rjmp':
            m = re.match(r'^(\d+)([bf])$', o[0].strip())
            if m:
                cand = self.numeric.get(m.group(1), [])
                t = [x for x in cand if x <= pc] if m.group(2) == 'b' else [x for x in cand if x > pc]
                if not t: raise AsmError('label ' + o[0])
                return t[-1] if m.group(2) == 'b' else t[0]
            return self.target(o[0])
        elif mn in ('ld', 'ldd'): d = self.rn(o[0]); a = self.ptr(o[1], False); R[d] = self.mem_ld(a)
        elif mn in ('st', 'std'): a = self.ptr(o[0], True); self.mem_st(a, R[self.rn(o[1])])
        elif mn == 'push': a = self.sp; self.sp = (self.sp - 1) & 0xffff; self.st(a, 1, R[self.rn(o[0])])
        elif mn == 'pop': a = (self.sp + 1) & 0xffff; R[self.rn(o[0])] = self.ld(a, 1); self.sp = a
        elif mn == 'in':
            a = int(o[1], 0); d = self.rn(o[0])
            if a == 0x3d: R[d] = self.sp & 255
            elif a == 0x3e: R[d] = self.sp >> 8
            elif a == 0x3f: R[d] = (0x80 if self.I else 0) | (0x40 if self.T else 0) | (1 if self.C else 0) | (2 if self.Z else 0)
            else: raise AsmError('in from I/O address 0x%x' % a)
        elif mn == 'out':
            a = int(o[0], 0); v = R[self.rn(o[1])]
            if a == 0x3d: self.sp = (self.sp & 0xff00) | v
            elif a == 0x3e: self.sp = (self.sp & 0xff) | (v << 8)
            elif a == 0x3f: self.I = bool(v & 0x80); self.T = bool(v & 0x40); self.C = bool(v & 1); self.Z = bool(v & 2)
            else: raise AsmError('out to I/O address 0x%x' % a)
        elif mn == 'cli': self.I = False
        elif mn == 'sei': self.I = True
        elif mn == 'ret':
            self.ret_to = (self.ld(self.sp + 1, 1) << 8) | self.ld(self.sp + 2, 1)
            self.sp = (self.sp + 2) & 0xffff
            self.done = True
        else: raise AsmError('unsupported AVR instruction: ' + raw)
        return None

    # Machine.owned() for a descending byte stack: frame = (sp, entry_sp] plus the return address above it
    def owned(self, addr, n, store):
        for lo, hi in self.regions:
            if lo <= addr and addr + n <= hi: return True
        return self.sp < addr and addr + n <= self.entry_sp + 1 + (self.caller_area if not store else 0)

    def check_abi(self):
        regs = 1
        for i in list(range(2, 18)) + [28, 29]:
            if self.r[i] != self.saved0[i]: regs = 0
        if self.r[1] != 0: regs = 0
        if getattr(self, 'ret_to', 0) != 0x1234: regs = 0
        if self.I != self.sreg_i_entry: regs = 0
        sp = 1 if (self.sp == self.SP0 and not self.sp_bad and not self.int_unsafe) else 0
        return regs, sp

    def run(self, st, first_round, dirty=0):
        """plain permutation: 40 canonical bytes at STATE (direct-XOR layout)"""
        self.mem = {}
        for i, b in enumerate(st): self.mem[self.STATE + i] = b
        self.regions = [(self.STATE, self.STATE + 40)]
        steps = self.run_call([self.STATE, first_round], dirty)
        regs, sp = self.check_abi()
        return dict(out=bytes(self.mem.get(self.STATE + i, 0) for i in range(40)), regs=regs, sp=sp, guard=0 if self.bad_access else 1, steps=steps, bad=self.bad_access[:4])

    def run_free(self):
        if 'ascon_backend_free' not in self.labels: return None
        self.mem = {}
        for i in range(40): self.mem[self.STATE + i] = i
        self.regions = [(self.STATE, self.STATE + 40)]
        entry = self.entry; self.entry = 'ascon_backend_free'
        try: steps = self.run_call([self.STATE])
        finally: self.entry = entry
        regs, sp = self.check_abi()
        same = all(self.mem.get(self.STATE + i) == i for i in range(40))
        return dict(regs=regs, sp=sp, guard=1 if (not self.bad_access and same) else 0, steps=steps)

    def run_masked(self, st, first_round, rng, sp0=None):
        """masked permutation on the direct (byte-wise XOR) share layout of the AVR build: word w, share k, byte j at
        STATE + (w * MAX_SHARES + k) * 8 + j, value = XOR of the shares; `preserve` = nshares - 1 random words"""
        ns, ms = self.a['shares'], self.a['maxshares']
        self.mem = {}
        if sp0 is not None: self.SP0 = sp0
        size = 5 * ms * 8
        for w in range(5):
            acc = bytearray(st[8 * w: 8 * w + 8])
            for k in range(1, ns):
                sh = bytes(rng.randrange(256) for _ in range(8))
                for j in range(8): self.mem[self.STATE + (w * ms + k) * 8 + j] = sh[j]; acc[j] ^= sh[j]
            for j in range(8): self.mem[self.STATE + (w * ms) * 8 + j] = acc[j]
            for k in range(ns, ms):          # share slots the word does not define
                for j in range(8): self.mem[self.STATE + (w * ms + k) * 8 + j] = 0xC9
        PRES = self.STATE + 0x200
        for j in range(8 * (ns - 1)): self.mem[PRES + j] = rng.randrange(256)
        self.regions = [(self.STATE, self.STATE + size), (PRES, PRES + 8 * (ns - 1))]
        steps = self.run_call([self.STATE, first_round, PRES], dirty=0x5a)
        regs, sp = self.check_abi()
        out = bytearray(40)
        for w in range(5):
            for k in range(ns):
                for j in range(8): out[8 * w + j] ^= self.mem.get(self.STATE + (w * ms + k) * 8 + j, 0)
        untouched = all(self.mem.get(self.STATE + (w * ms + k) * 8 + j) == 0xC9 for w in range(5) for k in range(ns, ms) for j in range(8))
        return dict(out=bytes(out), regs=regs, sp=sp, guard=0 if (self.bad_access or not untouched) else 1, steps=steps, bad=self.bad_access[:4], sp_bad=self.sp_bad[:3], int_unsafe=self.int_unsafe[:3])

    SP0 = 0x08ff
    STATE = 0x0300         # 16-bit data address space

CLASSES = {'Avr': Avr, 'RiscV': RiscV, 'A64': A64, 'Arm32': Arm32, 'M68k': M68k, 'Xtensa': Xtensa}
_machines = {}


def machine(arch):
    if arch not in _machines:
        _machines[arch] = CLASSES[ARCH[arch]['cls']](arch)
    return _machines[arch]


def events(c, ev, sts, arches=None):
    """called by checks/c18.py: one asm.permute event per (architecture, starting round, state)"""
    done = []
    extra = discover_variants()
    ARCH.update(extra)
    c.cov['discovered_configurations'] = sorted(extra)
    for arch in (arches or list(ARCH)):
        try:
            m = machine(arch)
            # AAPCS64 leaves bits 8.. of a uint8_t argument register unspecified: feed dirt there
            dirty = 0xa5c3 if arch in ('armv8a', 'avr5') else 0
            if '-' in arch: sts_a = sts[:2]        # a second preprocessor configuration of a file already run in full
            else: sts_a = sts
            for si, s in enumerate(sts_a):
                for r in range(12):
                    if 'shares' in ARCH[arch]:
                        # stack placements that do and do not make the frame straddle a 256-byte page
                        res = m.run_masked(s, r, c.rng, sp0=(0x08ff, 0x0920, 0x0918, 0x0930)[(si + r) % 4])
                    else:
                        res = m.run(s, r, dirty if si % 2 else 0)
                    ev.append({'e': 'asm.permute', 'arch': arch, 'fn': 'permute', 'r': r, 'in': list(s), 'out': list(res['out']),
                               'regs': res['regs'], 'sp': res['sp'], 'guard': res['guard']})
                    c.distinct([(arch, r, s)])
            if 'shares' not in ARCH[arch]:
                fr = m.run_free()
                if fr is not None:
                    ev.append({'e': 'asm.free', 'arch': arch, 'regs': fr['regs'], 'sp': fr['sp'], 'guard': fr['guard']}); c.distinct([(arch, 'free')])
            done.append(arch)
        except AsmError as e:
            ev.append({'e': 'Fault', 'kind': 'interpreter: %s: %s' % (arch, str(e)[:200]), 'line': 0})
            done.append(arch)
    c.cov['interpreted'] = done


if __name__ == '__main__':
    m = machine(sys.argv[1])
    r = m.run(bytes.fromhex(sys.argv[3]), int(sys.argv[2]))
    print(r['out'].hex(), 'regs=%d sp=%d guard=%d steps=%d' % (r['regs'], r['sp'], r['guard'], r['steps']))
