#!/bin/bash
# confirm_seeds.sh [seed ...] — for each seeded change: scratch worktree of /repo HEAD under /tmp, apply the
# patch, build, run the pinned test-suite (must still pass), run the seed's own demonstration (must fail
# with the change and pass without it).  Writes seeded/<seed>/confirm.json.  Removes every worktree.
cd /verif
SEEDS=${@:-$(ls seeded | grep "^C[0-9][0-9]-")}
export PRI=/tmp/confirm-pristine
git -C /repo worktree remove --force $PRI 2>/dev/null; rm -rf $PRI
git -C /repo worktree add --detach $PRI HEAD >/dev/null 2>&1
( cd $PRI && cmake -G Ninja -B _build -S . >/dev/null 2>&1 && cmake --build _build >/dev/null 2>&1 )
one() {
  s=$1; W=/tmp/confirm-$s
  git -C /repo worktree remove --force $W 2>/dev/null; rm -rf $W
  git -C /repo worktree add --detach $W HEAD >/dev/null 2>&1
  applies=1; ( cd $W && git apply /verif/seeded/$s/patch.diff ) || applies=0
  built=0; tests=-1; demo_mut=-1; demo_pri=-1
  if [ $applies = 1 ]; then
    ( cd $W && cmake -G Ninja -B _build -S . >/dev/null 2>&1 && cmake --build _build >/dev/null 2>&1 ) && built=1
    if [ $built = 1 ]; then
      tests=$(cd $W && ctest --test-dir _build -j4 --timeout 900 2>&1 | grep -o "[0-9]* tests failed" | grep -o "^[0-9]*")
      if [ -f seeded/$s/run.sh ]; then
        ( cd seeded/$s && env -i PATH="$PATH" HOME="$HOME" timeout 900 bash ./run.sh $W >/tmp/confirm-$s.mut.log 2>&1 ); demo_mut=$?
        ( cd seeded/$s && env -i PATH="$PATH" HOME="$HOME" timeout 900 bash ./run.sh $PRI >/tmp/confirm-$s.pri.log 2>&1 ); demo_pri=$?
      fi
    fi
  fi
  printf '{"seed":"%s","applies_to_head":%s,"builds":%s,"tests_failed_with_change":%s,"demo_exit_with_change":%s,"demo_exit_pristine":%s,"repo_head":"%s"}\n' \
     $s $applies $built "${tests:--1}" $demo_mut $demo_pri $(git -C /repo log --format=%h -1) > seeded/$s/confirm.json
  [ "$demo_pri" != 0 ] && cp /tmp/confirm-$s.pri.log /tmp/keep-$s.pri.log; git -C /repo worktree remove --force $W 2>/dev/null; rm -rf $W /tmp/confirm-$s.*.log
  cat seeded/$s/confirm.json
}
export -f one
printf '%s\n' $SEEDS | xargs -P 3 -I{} bash -c 'one {}'
git -C /repo worktree remove --force $PRI 2>/dev/null; rm -rf $PRI
git -C /repo worktree prune
