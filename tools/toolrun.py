#!/usr/bin/env python3
"""Scenario runner for the command-line tools (C19, C12): executes the REAL binaries
(/verif/.build/full/<fl>/apps/...) in a scratch directory, optionally under the LD_PRELOAD
fault-injection shim, and writes one ndjson trace event per scenario.
usage: toolrun.py <flavour> <scenarios.json> <trace.ndjson>"""
import sys, os, json, subprocess, hashlib, tempfile, shutil

def main():
    fl, scen, out = sys.argv[1], sys.argv[2], sys.argv[3]
    VR = os.environ.get('VERIF_ROOT', '/verif')
    B = VR + '/.build/full/' + fl
    CRYPT = B + '/apps/asconcrypt/asconcrypt'; SUM = B + '/apps/asconsum/asconsum'
    SHIM = VR + '/.build/shim/shim.so'
    work = tempfile.mkdtemp(prefix='toolrun', dir=VR + '/.build')
    env0 = dict(os.environ); env0.pop('LD_PRELOAD', None)
    env0['ASAN_OPTIONS'] = 'detect_leaks=0:exitcode=99'; env0['UBSAN_OPTIONS'] = 'halt_on_error=1:exitcode=98'
    def run(args, fault=None, stdin=None, cwd=None):
        env = dict(env0); log = None
        if fault:
            log = os.path.join(work, 'shim.log')
            if os.path.exists(log): os.remove(log)
            env.update({'LD_PRELOAD': SHIM, 'SHIM_OP': fault['op'], 'SHIM_K': str(fault['k']), 'SHIM_KIND': fault['kind'], 'SHIM_LOG': log})
        try:
            p = subprocess.run(args, stdin=stdin, stdout=subprocess.PIPE, stderr=subprocess.PIPE, env=env, cwd=cwd or work, timeout=120)
            rc, so, se = p.returncode, p.stdout, p.stderr
        except subprocess.TimeoutExpired:
            rc, so, se = 124, b'', b'timeout'
        tripped = 0; run.bursts = 0
        if log and os.path.exists(log):
            for line in open(log):
                if line.startswith(fault['op'] + ' '):
                    r = int(line.rsplit('->', 1)[1]); n = int(line.split()[2])
                    if r < 0 or (fault['kind'] == 'short' and 0 < r < n): tripped = 1
                    if fault['kind'] == 'burst' and 0 < r < n: run.bursts += 1
        return rc, so, se, tripped
    def run_piped(args, data, cuts):
        """the input arrives on standard input through a pipe, written in bursts cut at the given offsets
        with a pause in between, so that read() returns short counts before the end of the stream"""
        import time
        p = subprocess.Popen(args, stdin=subprocess.PIPE, stdout=subprocess.PIPE, stderr=subprocess.PIPE, env=env0, cwd=work)
        pos = 0
        try:
            for cut in list(cuts) + [len(data)]:
                if cut > pos: p.stdin.write(data[pos:cut]); p.stdin.flush(); pos = cut; time.sleep(0.12)
            p.stdin.close()
        except BrokenPipeError:
            pass
        try: p.wait(timeout=60)
        except subprocess.TimeoutExpired: p.kill(); p.wait()
        se = p.stderr.read(); p.stdout.close(); p.stderr.close()
        return p.returncode, b'', se, 0
    def sha(p): return hashlib.sha256(open(p, 'rb').read()).hexdigest() if os.path.exists(p) else None
    events = []
    for sc in json.load(open(scen)):
        kind = sc['kind']; ev = {'e': 'tool.' + kind}
        for f in os.listdir(work):
            p = os.path.join(work, f)
            shutil.rmtree(p) if os.path.isdir(p) else os.remove(p)
        if kind == 'crypt':
            content = bytes(sc['content']) if 'content' in sc else bytes((i * 131 + sc['size'] * 7 + (i >> 8)) & 255 for i in range(sc['size']))
            plain = os.path.join(work, sc.get('name', 'plain.bin')); enc = os.path.join(work, 'file.ascon'); dec = os.path.join(work, 'out.bin')
            open(plain, 'wb').write(content)
            pwargs = ['-p', sc['pw']] if 'pw' in sc else []
            if 'keyfile' in sc:
                open(os.path.join(work, 'key.txt'), 'wb').write(bytes(sc['keyfile'])); pwargs = ['-k', 'key.txt']
            what = sc['what']          # roundtrip | wrongpw | wrongkeyfile | flip | trunc | extend | fault_enc | fault_dec
            fault = sc.get('fault')
            if sc.get('preexist') and what == 'fault_enc': open(enc, 'wb').write(b'an older file under the output name\n' * 40)
            if 'pipe_enc' in sc: rc_e, so, se_e, trip_e = run_piped([CRYPT, '-e'] + pwargs + ['-o', enc, '-'], content, sc['pipe_enc'])
            else: rc_e, so, se_e, trip_e = run([CRYPT, '-e'] + pwargs + ['-o', enc, plain], fault if what == 'fault_enc' else None)
            ev.update({'pipe_enc': sc.get('pipe_enc', []), 'pipe_dec': sc.get('pipe_dec', []), 'preexist': 1 if sc.get('preexist') else 0})
            OLD = b'an older file under the output name\n' * 40
            def own_output(path):
                # an older file that the tool never opened (it failed earlier) is not output of this run
                if not os.path.exists(path): return 0
                return 0 if (sc.get('preexist') and open(path, 'rb').read() == OLD) else 1
            ev.update({'what': what, 'size': len(content), 'fault': fault or {'op': 'none', 'k': 0, 'kind': 'none'},
                       'exit_enc': rc_e, 'stderr_enc': 1 if se_e else 0, 'enc_exists': own_output(enc),
                       'enc_size': os.path.getsize(enc) if os.path.exists(enc) else -1, 'tripped': trip_e, 'bursts': getattr(run, 'bursts', 0) if what == 'fault_enc' else 0})
            if what != 'fault_enc' or (rc_e == 0 and own_output(enc)):
                if own_output(enc):
                    data = bytearray(open(enc, 'rb').read())
                    if what == 'flip': data[sc['pos']] ^= sc['mask']
                    elif what == 'trunc': data = data[:sc['len']]
                    elif what == 'extend': data += bytes(sc['extra'])
                    open(enc, 'wb').write(bytes(data))
                dpw = ['-p', sc['pw2']] if what == 'wrongpw' else pwargs
                if what == 'wrongkeyfile':
                    open(os.path.join(work, 'key2.txt'), 'wb').write(bytes(sc['keyfile2'])); dpw = ['-k', 'key2.txt']
                if sc.get('preexist'): open(dec, 'wb').write(b'an older file under the output name\n' * 40)
                if 'pipe_dec' in sc: rc_d, so, se_d, trip_d = run_piped([CRYPT, '-d'] + dpw + ['-o', dec, '-'], open(enc, 'rb').read(), sc['pipe_dec'])
                else: rc_d, so, se_d, trip_d = run([CRYPT, '-d'] + dpw + ['-o', dec, enc], fault if what == 'fault_dec' else None)
                ev.update({'exit_dec': rc_d, 'stderr_dec': 1 if se_d else 0, 'dec_exists': own_output(dec),
                           'same': 1 if os.path.exists(dec) and open(dec, 'rb').read() == content else 0})
                if what == 'fault_dec': ev['tripped'] = trip_d; ev['bursts'] = getattr(run, 'bursts', 0)
            else:
                ev.update({'exit_dec': -1, 'stderr_dec': 0, 'dec_exists': 0, 'same': 0})
        elif kind == 'genkey':
            fault = sc.get('fault'); kf = os.path.join(work, 'gen.key')
            rc, so, se, trip = run([CRYPT, '-g', kf], fault)
            data = open(kf, 'rb').read() if os.path.exists(kf) else b''
            good = len(data) == 41 and data.endswith(b'\n') and all(chr(b) in '0123456789abcdefghijklmnopqrstuvwxyzABCDEFGHIJKLMNOPQRSTUVWXYZ%$' for b in data[:40])
            ev.update({'fault': fault or {'op': 'none', 'k': 0, 'kind': 'none'}, 'exit': rc, 'exists': 1 if os.path.exists(kf) else 0, 'wellformed': 1 if good else 0, 'tripped': trip})
        elif kind == 'sumfault':
            # a read error on the data file at its k-th read (strace fault injection; asconsum uses stdio)
            content = bytes(sc['content']); name = 'data.bin'; path = os.path.join(work, name)
            open(path, 'wb').write(content)
            slog = os.path.join(work, 'strace.log')
            def srun(args):
                p = subprocess.run(['strace', '-o', slog, '-P', path, '-e', 'trace=read', '-e', 'inject=read:error=EIO:when=%d' % sc['k']] + args,
                                   stdout=subprocess.PIPE, stderr=subprocess.PIPE, env=env0, cwd=work, timeout=120)
                trip = 1 if os.path.exists(slog) and 'INJECTED' in open(slog).read() else 0
                return p.returncode, p.stdout.decode('latin1'), trip
            if sc.get('check'):
                rc0, so0, se0, _ = run([SUM, '-' + sc['alg'], name])
                open(os.path.join(work, 'sums.txt'), 'w').write(so0.decode('latin1'))
                rc, so, trip = srun([SUM, '-' + sc['alg'] + 'c', 'sums.txt'])
                ev.update({'alg': sc['alg'], 'check': 1, 'k': sc['k'], 'size': len(content), 'exit': rc, 'tripped': trip, 'reported_ok': 1 if (name + ': OK') in so else 0, 'printed': 0})
            else:
                rc, so, trip = srun([SUM, '-' + sc['alg'], name])
                ev.update({'alg': sc['alg'], 'check': 0, 'k': sc['k'], 'size': len(content), 'exit': rc, 'tripped': trip, 'reported_ok': 0, 'printed': 1 if name in so else 0})
        elif kind == 'summany':
            # many arguments of which nfail cannot be processed (hash mode: missing files; check mode: lists naming a
            # modified file), in between arguments that can: the exit status must say so for EVERY count
            nfail = sc['nfail']; good = os.path.join(work, 'good.txt'); open(good, 'wb').write(b'good\n')
            if sc.get('check'):
                rc0, so0, se0, _ = run([SUM, '-' + sc['alg'], 'good.txt'])
                open(os.path.join(work, 'ok.sum'), 'wb').write(so0)
                bad = so0[:1].replace(b'0', b'1') if so0[:1] == b'0' else b'0'
                open(os.path.join(work, 'bad.sum'), 'wb').write(bad + so0[1:])
                args = [SUM, '-' + sc['alg'] + 'c', 'ok.sum'] + ['bad.sum'] * nfail + ['ok.sum']
            else:
                args = [SUM, '-' + sc['alg'], 'good.txt'] + ['missing-%d' % i for i in range(nfail)] + ['good.txt']
            rc, so, se, _ = run(args)
            ev.update({'alg': sc['alg'], 'check': 1 if sc.get('check') else 0, 'nfail': nfail, 'exit': rc, 'good_lines': so.count(b'good.txt')})
        elif kind == 'sumwritefault':
            # the k-th write to standard output (a regular file) fails: the digests / verdicts are lost
            n = sc['nfiles']
            for i in range(n): open(os.path.join(work, 'f%03d.txt' % i), 'wb').write(b'content %d\n' % i)
            names = ['f%03d.txt' % i for i in range(n)]
            rc0, so0, se0, _ = run([SUM, '-' + sc['alg']] + names)
            open(os.path.join(work, 'list.sum'), 'wb').write(so0)
            outp = os.path.join(work, 'stdout.txt'); slog = os.path.join(work, 'strace.log')
            args = [SUM, '-' + sc['alg'] + 'c', 'list.sum'] if sc.get('check') else [SUM, '-' + sc['alg']] + names
            with open(outp, 'wb') as fo:
                p = subprocess.run(['strace', '-o', slog, '-P', outp, '-e', 'trace=write', '-e', 'inject=write:error=ENOSPC:when=%d' % sc['k']] + args,
                                   stdout=fo, stderr=subprocess.PIPE, env=env0, cwd=work, timeout=120)
            trip = 1 if os.path.exists(slog) and 'INJECTED' in open(slog).read() else 0
            got = open(outp, 'rb').read()
            want = so0 if not sc.get('check') else b''.join(b'%s: OK\n' % nm.encode() for nm in names)
            ev.update({'alg': sc['alg'], 'check': 1 if sc.get('check') else 0, 'nfiles': n, 'k': sc['k'], 'gen_exit': rc0, 'exit': p.returncode, 'tripped': trip,
                       'complete': 1 if got == want else 0, 'stderr': 1 if p.stderr else 0})
        elif kind == 'sumlistfault':
            # a read error on the CHECKSUM LIST itself at its k-th read: nothing may be taken for verified
            n = sc['nfiles']
            for i in range(n): open(os.path.join(work, 'f%03d.txt' % i), 'wb').write(b'content %d\n' % i)
            names = ['f%03d.txt' % i for i in range(n)]
            rc0, so0, se0, _ = run([SUM, '-' + sc['alg']] + names)
            lst = os.path.join(work, 'list.sum'); open(lst, 'wb').write(so0)
            slog = os.path.join(work, 'strace.log')
            p = subprocess.run(['strace', '-o', slog, '-P', lst, '-e', 'trace=read', '-e', 'inject=read:error=EIO:when=%d' % sc['k'], SUM, '-' + sc['alg'] + 'c', 'list.sum'],
                               stdout=subprocess.PIPE, stderr=subprocess.PIPE, env=env0, cwd=work, timeout=120)
            trip = 1 if os.path.exists(slog) and 'INJECTED' in open(slog).read() else 0
            so = p.stdout.decode('latin1')
            ev.update({'alg': sc['alg'], 'nfiles': n, 'listsize': len(so0), 'k': sc['k'], 'gen_exit': rc0, 'exit': p.returncode, 'tripped': trip,
                       'nok': so.count(': OK'), 'stderr': 1 if p.stderr else 0})
        elif kind == 'sum':
            content = bytes(sc['content']); name = sc.get('name', 'data.bin')
            open(os.path.join(work, name), 'wb').write(content)
            rc, so, se, _ = run([SUM, '-' + sc['alg'], name])
            line = so.decode('latin1')
            ok = len(line) >= 66 and line[64:66] == '  ' and line[66:].rstrip('\n') == name and line.endswith('\n')
            try: dig = list(bytes.fromhex(line[:64]))
            except ValueError: dig = []; ok = False
            ev.update({'alg': sc['alg'], 'content': list(content), 'digest': dig, 'format_ok': 1 if ok else 0, 'exit': rc, 'lower': 1 if line[:64] == line[:64].lower() else 0})
        elif kind == 'sumcheck':
            files = sc['files']; lines = []
            for i, f in enumerate(files):
                nm = 'f%d.bin' % i
                open(os.path.join(work, nm), 'wb').write(bytes(f['content']))
            rc, so, se, _ = run([SUM, '-' + sc['alg']] + ['f%d.bin' % i for i in range(len(files))])
            sums = so.decode('latin1')
            for i, f in enumerate(files):
                nm = os.path.join(work, 'f%d.bin' % i)
                if f.get('modify'): 
                    d = bytearray(open(nm, 'rb').read()); 
                    if d: d[f['modify'] % len(d)] ^= 1
                    else: d = bytearray(b'x')
                    open(nm, 'wb').write(bytes(d))
                if f.get('remove'): os.remove(nm)
            extra = ''.join(l + '\n' for l in sc.get('bad_lines', []))
            text = sums + extra
            # list shapes other tools and editors produce: CRLF line ends, upper-case digests, no newline after the last line
            if sc.get('eol') == 'crlf': text = text.replace('\n', '\r\n')
            if sc.get('upper'): text = ''.join((l[:64].upper() + l[64:]) if len(l) > 66 else l for l in text.splitlines(True))
            if sc.get('no_final_newline'): text = text.rstrip('\r\n')
            open(os.path.join(work, 'sums.txt'), 'w', encoding='latin1', newline='').write(text)
            if sc.get('stdin'):
                rc2, so2, se2, _ = run([SUM, '-' + sc['alg'] + 'c'], stdin=open(os.path.join(work, 'sums.txt'), 'rb'))
            else:
                rc2, so2, se2, _ = run([SUM, '-' + sc['alg'] + 'c', 'sums.txt'])
            rep = {}
            for l in so2.decode('latin1').split('\n'):
                if ': ' in l: rep[l.split(': ')[0]] = l.split(': ', 1)[1]
            ev.update({'shape': '%s%s%s%s' % (sc.get('eol', 'lf'), '+upper' if sc.get('upper') else '', '+nofinal' if sc.get('no_final_newline') else '', '+stdin' if sc.get('stdin') else '')})
            ev.update({'alg': sc['alg'], 'gen_exit': rc, 'exit': rc2, 'nbad': len(sc.get('bad_lines', [])),
                       'files': [{'changed': 1 if (f.get('modify') or f.get('remove')) else 0, 'missing': 1 if f.get('remove') else 0,
                                  'reported': rep.get('f%d.bin' % i, 'none')} for i, f in enumerate(files)]})
        elif kind == 'args':
            # argument-vector robustness (C12): only exit status / signal matter
            for nm, data in sc.get('files', {}).items(): open(os.path.join(work, nm), 'wb').write(bytes(data))
            tool = CRYPT if sc['tool'] == 'asconcrypt' else SUM
            rc, so, se, _ = run([tool] + sc['argv'])
            ev.update({'tool': sc['tool'], 'argv_len': [len(a) for a in sc['argv']], 'exit': rc, 'signaled': 1 if rc < 0 else 0,
                       'sanitizer': 1 if rc in (98, 99) or b'Sanitizer' in se or b'runtime error' in se else 0, 'tag': sc.get('tag', '')})
        events.append(ev)
    with open(out, 'w') as f:
        for ev in events: f.write(json.dumps(ev) + '\n')
    shutil.rmtree(work, ignore_errors=True)
main()
