#!/bin/bash
# build.sh <flavour>  — builds libascon_static.a from /repo's CURRENT working tree into
# /verif/.build/lib/<flavour> (out of tree, incremental) and the driver into /verif/.build/drv/<flavour>/drv.
# flavour = '+'-separated tokens: rel | san | tsan | c32 | c64 | dxor | generic | chk | ksN | dsN | msN | nodrv | realmask | sysrng | nobzero
set -e
FL=${1:-rel}
REPO=${REPO:-/repo}
VR=${VERIF_ROOT:-/verif}
ROOT=$VR/.build
LIB=$ROOT/lib/$FL
DRV=$ROOT/drv/$FL
CM=(-DMINIMAL=ON)
CF=""; BT=Release; DRVF="-O1"; NODRV=0; DEFS=""; REALMASK=0; SYSRNG=0
IFS='+' read -ra TOK <<< "$FL"
for t in "${TOK[@]}"; do
  case $t in
    rel) ;;
    san) CF="-O1 -g -fno-omit-frame-pointer -fsanitize=address,undefined -fno-sanitize-recover=all"; BT=Debug; DRVF="$CF";;
    tsan) CF="-O1 -g -fsanitize=thread"; BT=Debug; DRVF="$CF";;
    c32) CM+=(-DBACKEND_C32=ON); DEFS="$DEFS -DASCON_FORCE_C32";;
    c64) CM+=(-DBACKEND_C64=ON); DEFS="$DEFS -DASCON_FORCE_C64";;
    dxor) CM+=(-DBACKEND_DIRECT_XOR=ON); DEFS="$DEFS -DASCON_FORCE_DIRECT_XOR";;
    generic) CM+=(-DBACKEND_GENERIC=ON); DEFS="$DEFS -DASCON_FORCE_GENERIC";;
    chk) CM+=(-DCHECK_ACQUIRE_RELEASE=ON); DEFS="$DEFS -DASCON_FORCE_GENERIC -DASCON_CHECK_ACQUIRE_RELEASE";;
    ks[234]) CM+=(-DKEY_SHARES=${t#ks});;
    ds[1234]) CM+=(-DDATA_SHARES=${t#ds});;
    ms[234]) CM+=(-DMAX_SHARES=${t#ms});;
    nodrv) NODRV=1;;
    realmask) REALMASK=1;;
    nobzero) CM+=(-DHAVE_EXPLICIT_BZERO=OFF -DHAVE_MEMSET_S=OFF);;      # a C library without explicit_bzero / memset_s: ascon_clean's own loop
    sysrng) SYSRNG=1; DEFS="$DEFS -DDRV_SYSRNG";;
    *) echo "build.sh: unknown flavour token $t" >&2; exit 2;;
  esac
done
mkdir -p $LIB $DRV
if [ ! -f $LIB/build.ninja ]; then
  cmake -G Ninja -S $REPO -B $LIB "${CM[@]}" -DCMAKE_BUILD_TYPE=$BT ${CF:+-DCMAKE_C_FLAGS="$CF" -DCMAKE_CXX_FLAGS="$CF"} >$LIB/cmake.log 2>&1 || { cat $LIB/cmake.log >&2; exit 3; }
fi
ninja -C $LIB ascon_static >$LIB/ninja.log 2>&1 || { tail -30 $LIB/ninja.log >&2; exit 3; }
[ $NODRV = 1 ] && exit 0
H=$VR/harness
# rebuild the driver when any harness source or the library is newer
if [ ! -x $DRV/drv ] || [ -n "$(find $H $LIB/src/libascon_static.a -newer $DRV/drv -print -quit)" ]; then
  SHARES=$(grep -h "define ASCON_MASKED_.*SHARES\|define ASCON_MASKED_MAX" $LIB/version.h 2>/dev/null | tr '\n' ' ')
  WRAP="-Wl,--wrap=ascon_trng_generate,--wrap=ascon_trng_generate_64,--wrap=ascon_trng_generate_32,--wrap=ascon_permute"
  # realmask: the masking randomness comes from the library's own TRNG mixer (only the system
  # entropy source stays substituted), so that the mixer's use of a permutation state is exercised
  [ $REALMASK = 1 ] && WRAP="-Wl,--wrap=ascon_trng_generate,--wrap=ascon_permute"
  # sysrng: the library's Linux entropy back end runs on a scripted getrandom()
  [ $SYSRNG = 1 ] && WRAP="$WRAP,--wrap=getrandom"
  g++ -std=c++11 $DRVF $DEFS -Wall -Wno-unused-function -DHAVE_CONFIG_H -I$REPO/src -I$LIB -I$H \
      $(ls $H/drv_*.cpp $H/wrap_trng.cpp) $H/tramp_x86_64.S $LIB/src/libascon_static.a \
      $WRAP \
      -lpthread -o $DRV/drv.tmp 2>$DRV/build.log || { cat $DRV/build.log >&2; exit 4; }
  mv $DRV/drv.tmp $DRV/drv
fi
