#!/bin/bash
# run_all_quick.sh [Cxx ...] — every quick check on the current tree, one line each
cd ${VERIF_ROOT:-/verif}
for c in ${@:-C01 C02 C03 C04 C05 C06 C07 C08 C09 C10 C11 C12 C13 C14 C15 C16 C17 C18 C19 C20}; do
  s=$(date +%s); out=$(timeout 2400 ./check $c 2>&1); rc=$?
  echo "$c rc=$rc $(( $(date +%s) - s ))s $(echo "$out" | grep -c '^VIOLATION') violations $(echo "$out" | grep -m1 'INFRA\|VIOLATION' | cut -c1-160)"
done
