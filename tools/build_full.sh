#!/bin/bash
# build_full.sh [flavour] — full (non-MINIMAL) build of /repo's current tree: shared library and the
# two command-line tools, into /verif/.build/full/<flavour>; also builds the LD_PRELOAD shim.
set -e
FL=${1:-rel}
VR=${VERIF_ROOT:-/verif}
B=$VR/.build/full/$FL
mkdir -p $B $VR/.build/shim
CF=""
[ "$FL" = san ] && CF="-O1 -g -fsanitize=address,undefined -fno-sanitize-recover=all"
if [ ! -f $B/build.ninja ]; then
  cmake -G Ninja -S ${REPO:-/repo} -B $B ${CF:+-DCMAKE_BUILD_TYPE=Debug -DCMAKE_C_FLAGS="$CF" -DCMAKE_CXX_FLAGS="$CF"} >$B/cmake.log 2>&1 || { cat $B/cmake.log >&2; exit 3; }
fi
ninja -C $B ascon asconcrypt asconsum >$B/ninja.log 2>&1 || { tail -30 $B/ninja.log >&2; exit 3; }
gcc -shared -fPIC -O1 -o $VR/.build/shim/shim.so $VR/harness/shim_preload.c -ldl
