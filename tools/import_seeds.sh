#!/bin/bash
# import_seeds.sh <Cxx> <tag> : copy /tmp/seedout-<Cxx><tag>/<k>/ to seeded/<Cxx>-<next>/, remove the scratch worktree
P=$1; T=$2; cd /verif
for d in /tmp/seedout-$P$T/[0-9]*; do
  [ -f $d/patch.diff ] || continue
  n=1; while [ -e seeded/$P-$n ]; do n=$((n+1)); done
  mkdir -p seeded/$P-$n; cp -r $d/* seeded/$P-$n/; echo "$P-$n <- $d"
done
git -C /repo worktree remove --force /tmp/seedwt-$P$T 2>/dev/null; rm -rf /tmp/seedwt-$P$T /tmp/seedout-$P$T
