#!/usr/bin/env python3
"""Regenerates /verif/MANIFEST.json from the table below (one source of truth)."""
import json, os
CLAIMED = {
 'C01': dict(cat='model_checking', ref='DESIGN.md §6 C01',
   text='TLC exhausts the symbolic incremental-AEAD machine (every partition of the message, three variants, enc/dec, sessions, re-init) against the one-shot operator, and TLC re-computes every recorded encryption of the real library (6 entry-point families) from the TLA+ definition of ASCON v1.2 AEAD; structure exhaustive by class, data values sampled.',
   note='Trusted: TLC, the transcription of ASCON v1.2 in spec/AsconModes.tla (anchored on the reference KAT vectors by KatCheck), the driver harness/drv_aead.cpp. Key/nonce/data values are sampled, not exhausted.',
   tech='TLA+ spec + TLC model checking (symbolic permutation) + trace validation of the real library against the spec (concrete permutation)'),
 'C02': dict(cat='model_checking', ref='DESIGN.md §6 C02',
   text='MC_Forge exhausts every single-position substitution / truncation / extension on the symbolic AEAD and SIV operators (accept iff authentic; a 15-position tag comparison is refuted); the real library is driven through a bit flip in every ciphertext/tag byte, tag bits, every AD byte, nonce and key bits, paired differences, every truncation and extension for 9 schemes x all entry-point families, each judged by TLC (base ciphertext recomputed from the spec, forged inputs must be rejected and wiped).',
   note='Trusted: TLC, the L1 transcription in spec/*.tla (anchored on reference KATs by KatCheck), the driver harness/drv_*.cpp. Input VALUES are sampled; structure is enumerated by class.',
   tech='TLA+ spec + TLC model checking (symbolic permutation) + trace validation of the real library against the spec (concrete permutation)'),
 'C03': dict(cat='model_checking', ref='DESIGN.md §6 C03',
   text='TLC re-computes every recorded HASH/HASHA/XOF/XOFA digest, every fixed declared length (incl. 32, 2^29 clamp, SIZE_MAX) and customised-XOF initialisation (names 0..100 chars incl. exactly 32/33, NULL) from the TLA+ definitions, on three back ends (pre-computed initial values); MC_Sponge shows the object machine refines the one-shot operators.',
   note='Trusted: TLC, the L1 transcription in spec/*.tla (anchored on reference KATs by KatCheck), the driver harness/drv_*.cpp. Input VALUES are sampled; structure is enumerated by class.',
   tech='TLA+ spec + TLC model checking (symbolic permutation) + trace validation of the real library against the spec (concrete permutation)'),
 'C04': dict(cat='model_checking', ref='DESIGN.md §6 C04',
   text='TLC re-computes Prf/PrfFixed/Mac, the full PrfShort (inlen,outlen) grid incl. its error cases, HMAC/HMACA for key lengths around and above the 64-byte block, KMAC/KMACA on both init paths, and judges mac_verify for the right tag, all 128 single-bit-wrong tags and random tags.',
   note='Trusted: TLC, the L1 transcription in spec/*.tla (anchored on reference KATs by KatCheck), the driver harness/drv_*.cpp. Input VALUES are sampled; structure is enumerated by class.',
   tech='TLA+ spec + TLC model checking (symbolic permutation) + trace validation of the real library against the spec (concrete permutation)'),
 'C05': dict(cat='model_checking', ref='DESIGN.md §6 C05',
   text='MC_Hkdf exhausts expand partitions across the 255-block limit with the real 8-bit counter (prefix of RFC 5869 stream, zero fill, -1); TLC re-computes one-shot and incremental HKDF[A] (incl. objects positioned at blocks 253..255), PBKDF2 / PBKDF2-HMAC for counts 0,1,2,3,5 x output classes, KDF/KDFA.',
   note='Trusted: TLC, the L1 transcription in spec/*.tla (anchored on reference KATs by KatCheck), the driver harness/drv_*.cpp. Input VALUES are sampled; structure is enumerated by class.',
   tech='TLA+ spec + TLC model checking (symbolic permutation) + trace validation of the real library against the spec (concrete permutation)'),
 'C06': dict(cat='model_checking', ref='DESIGN.md §6 C06',
   text='TLC re-computes SIV x3 and ISAP x3 ciphertexts from the TLA+ definitions (ISAP v2.0 bit-wise re-keying included) for C, C++ pointer and byte_array entry points; key-object histories (init, packets, save at any point, load into fresh objects, decrypt, forged decrypt) are validated with the frame condition that the raw key bytes are bit-identical after every use; MC_IsapKey shows Load(Save(k)) is k.',
   note='Trusted: TLC, the L1 transcription in spec/*.tla (anchored on reference KATs by KatCheck), the driver harness/drv_*.cpp. Input VALUES are sampled; structure is enumerated by class.',
   tech='TLA+ spec + TLC model checking (symbolic permutation) + trace validation of the real library against the spec (concrete permutation)'),
 'C07': dict(cat='model_checking', ref='DESIGN.md §6 C07',
   text='MC_Sponge / MC_SpongeCopy / MC_SpongeDuplex / MC_Aead / MC_Hkdf exhaust, on the symbolic instance, every partition of input and output into calls (incl. empty), copies at any point, re-init after any history, pad, duplex re-absorb, multi-packet sessions; every (count, call length) transition of those machines, random walks and AEAD sessions with independent enc/dec chunkings and in-place buffers are replayed on the real library with the full projected object state compared by TLC after every call.',
   note='Trusted: TLC, the L1 transcription in spec/*.tla (anchored on reference KATs by KatCheck), the driver harness/drv_*.cpp. Input VALUES are sampled; structure is enumerated by class.',
   tech='TLA+ spec + TLC model checking (symbolic permutation) + trace validation of the real library against the spec (concrete permutation)'),
 'C08': dict(cat='model_checking', ref='DESIGN.md §6 C08',
   text='Every (offset,size) pair x 6 byte-range operations and every starting round 0..11 is executed on five host back ends; TLC validates each recorded call and the 40 canonical state bytes after it against the TLA+ permutation and state algebra.',
   note='Trusted: TLC, spec/AsconPerm.tla (checked against the published ASCON-HASH initial value and all KATs), the driver. State/data values sampled (patterns, walking bits, random); shape space exhaustive.',
   tech='TLA+ spec of the permutation/state algebra + trace validation with TLC on five back-end builds'),
 'C14': dict(cat='model_checking', ref='DESIGN.md §6 C14',
   text='MC_Nonce exhausts the ripple-carry increment on scaled nonces (all 2^16 base-2 and 3^9 base-3 values: Inc = +1 mod B^D) and sessions mixing encryption, successful and failed decryption; the same operator at base 256 judges the real helper for every carry-chain length 0..16, three-packet incremental C sessions (stored nonce logged after every start), and all 12 C++ classes (packet i = C function under N+i; forged and runt packets must not advance the nonce; set_nonce lengths 0..20; set_counter).',
   note='Trusted: TLC, the specification in spec/*.tla, the drivers in harness/. Input VALUES are sampled; structure is enumerated by class.',
   tech='TLA+ spec + TLC model checking + trace validation of the real library against the spec'),
 'C15': dict(cat='model_checking', ref='DESIGN.md §6 C15',
   text='MC_Prng exhausts operation sequences on the symbolic instance (forward-secure shape p(Z(p(Z(p(Z(p(Z(x)))))))) after every action, reseed exactly when the scaled limit is reached, every drawn/fed byte occurs in the state, status = health of the draw); with the system source substituted at link time TLC recomputes the complete state evolution of the real generator (40 state bytes, counter, number of source draws, outputs, statuses) over random histories incl. failing draws, storage results, the 16384-byte threshold, NULL-state conveniences.',
   note='Trusted: TLC, the specification in spec/*.tla, the drivers in harness/. Input VALUES are sampled; structure is enumerated by class.',
   tech='TLA+ spec + TLC model checking + trace validation of the real library against the spec'),
 'C17': dict(cat='model_checking', ref='DESIGN.md §6 C17',
   text='A translation unit instantiating every documented member/overload of hash, hasha, xof, xofa and the fixed-length templates plus the helper functions must compile against /repo headers (compile failure = violation); each member call is replayed as the sponge object it wraps; the 12 cipher classes are driven through every construction and keying path (default, key, NULL key, set_key full / zero length / NULL / wrong lengths, saved ISAP keys, clear, randomize_key) and judged against the C-level specification of (effective key, nonce).',
   note='Trusted: TLC, the specification in spec/*.tla, the drivers in harness/. Input VALUES are sampled; structure is enumerated by class.',
   tech='TLA+ spec + TLC model checking + trace validation of the real library against the spec'),
 'C20': dict(cat='model_checking', ref='DESIGN.md §6 C20',
   text='MC_Hex: decoder automaton = documented function for all strings up to length 4 over a class alphabet x space 0..3, no write at index >= space, round trip; MC_ByteArray: the copy-on-write heap refines independent sequences for 3 variables x 4 operations, with the two historical defects kept as negative configurations that TLC must refute; the real codec is run on all 256 characters, class strings and random round trips, the real ASCON_NO_STL class on random walks of 40 operations over up to 4 aliased variables with the TLA+ sequence model as oracle.',
   note='Trusted: TLC, the specification in spec/*.tla, the drivers in harness/. Input VALUES are sampled; structure is enumerated by class.',
   tech='TLA+ spec + TLC model checking + trace validation of the real library against the spec'),
}
NOT_YET = {}
ALL = ['C%02d' % i for i in range(1, 21)]
def main():
    checks = []
    for pid in ALL:
        if pid not in CLAIMED: continue
        c = CLAIMED[pid]
        checks.append({
            'property_id': pid,
            'quick_cmd': './check %s --tier quick' % pid,
            'thorough_cmd': './check %s --tier thorough' % pid,
            'evidence_file': '/verif/evidence/%s.json' % pid,
            'replay_cmd_template': './check %s --replay {path}' % pid,
            'engine': 'tlc-trace',
            'level_claimed': {'category': c['cat'], 'text': c['text'], 'design_ref': c['ref']},
            'level_note': c['note'],
            'technique': c['tech'],
        })
    na = [{'property_id': p, 'reason': NOT_YET.get(p, 'check not built yet in this round (planned, see DESIGN.md §6); nothing is claimed for it')} for p in ALL if p not in CLAIMED]
    m = {
        'version': 1,
        'setup_cmd': './setup.sh',
        'hooks': {'guard': 'ASCON_SUITE_VERIF', 'enable': 'none needed: the environment is substituted at link time (-Wl,--wrap of the TRNG entry points) and by LD_PRELOAD; no source hook exists',
                  'baseline_off_cmd': 'rm -rf /tmp/ascon-baseline && cmake -G Ninja -S /repo -B /tmp/ascon-baseline >/dev/null && cmake --build /tmp/ascon-baseline >/dev/null && ctest --test-dir /tmp/ascon-baseline -j8 --timeout 900; rc=$?; rm -rf /tmp/ascon-baseline; exit $rc',
                  'source_commits': [], 'add_only': True},
        'engines': [{'name': 'tlc-trace', 'path': '/verif/check', 'serves_properties': [c['property_id'] for c in checks],
                     'kind_free_text': 'TLA+ specification (spec/*.tla) checked with TLC; conformance by replaying plans generated from the spec through the real library (harness/drv) and validating the recorded traces with TLC (spec/Trace.tla)'}],
        'checks': checks,
        'not_applicable': na,
        'notes': 'Exit codes of every command: 0 property held on everything explored, 1 + VIOLATION line, 2 = INFRA-ERROR (tool failure, never a verdict). Fixed defects: known-findings.txt.',
    }
    json.dump(m, open('/verif/MANIFEST.json', 'w'), indent=1)
main()
