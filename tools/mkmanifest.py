#!/usr/bin/env python3
"""Regenerates /verif/MANIFEST.json from the table below (one source of truth)."""
import json, os
CLAIMED = {
 'C01': dict(cat='model_checking', ref='DESIGN.md §6 C01',
   text='TLC exhausts the symbolic incremental-AEAD machine (every partition of the message, three variants, enc/dec, sessions, re-init) against the one-shot operator, and TLC re-computes every recorded encryption of the real library (6 entry-point families) from the TLA+ definition of ASCON v1.2 AEAD; structure exhaustive by class, data values sampled.',
   note='Trusted: TLC, the transcription of ASCON v1.2 in spec/AsconModes.tla (anchored on the reference KAT vectors by KatCheck), the driver harness/drv_aead.cpp. Key/nonce/data values are sampled, not exhausted.',
   tech='TLA+ spec + TLC model checking (symbolic permutation) + trace validation of the real library against the spec (concrete permutation)'),
 'C08': dict(cat='model_checking', ref='DESIGN.md §6 C08',
   text='Every (offset,size) pair x 6 byte-range operations and every starting round 0..11 is executed on five host back ends; TLC validates each recorded call and the 40 canonical state bytes after it against the TLA+ permutation and state algebra.',
   note='Trusted: TLC, spec/AsconPerm.tla (checked against the published ASCON-HASH initial value and all KATs), the driver. State/data values sampled (patterns, walking bits, random); shape space exhaustive.',
   tech='TLA+ spec of the permutation/state algebra + trace validation with TLC on five back-end builds'),
}
NOT_YET = {}
ALL = ['C%02d' % i for i in range(1, 21)]
def main():
    checks = []
    for pid in ALL:
        if pid not in CLAIMED: continue
        c = CLAIMED[pid]
        checks.append({
            'property_id': pid,
            'quick_cmd': './check %s --tier quick' % pid,
            'thorough_cmd': './check %s --tier thorough' % pid,
            'evidence_file': '/verif/evidence/%s.json' % pid,
            'replay_cmd_template': './check %s --replay {path}' % pid,
            'engine': 'tlc-trace',
            'level_claimed': {'category': c['cat'], 'text': c['text'], 'design_ref': c['ref']},
            'level_note': c['note'],
            'technique': c['tech'],
        })
    na = [{'property_id': p, 'reason': NOT_YET.get(p, 'check not built yet in this round (planned, see DESIGN.md §6); nothing is claimed for it')} for p in ALL if p not in CLAIMED]
    m = {
        'version': 1,
        'setup_cmd': './setup.sh',
        'hooks': {'guard': 'ASCON_SUITE_VERIF', 'enable': 'none needed: the environment is substituted at link time (-Wl,--wrap of the TRNG entry points) and by LD_PRELOAD; no source hook exists',
                  'baseline_off_cmd': 'rm -rf /tmp/ascon-baseline && cmake -G Ninja -S /repo -B /tmp/ascon-baseline >/dev/null && cmake --build /tmp/ascon-baseline >/dev/null && ctest --test-dir /tmp/ascon-baseline -j8 --timeout 900; rc=$?; rm -rf /tmp/ascon-baseline; exit $rc',
                  'source_commits': [], 'add_only': True},
        'engines': [{'name': 'tlc-trace', 'path': '/verif/check', 'serves_properties': [c['property_id'] for c in checks],
                     'kind_free_text': 'TLA+ specification (spec/*.tla) checked with TLC; conformance by replaying plans generated from the spec through the real library (harness/drv) and validating the recorded traces with TLC (spec/Trace.tla)'}],
        'checks': checks,
        'not_applicable': na,
        'notes': 'Exit codes of every command: 0 property held on everything explored, 1 + VIOLATION line, 2 = INFRA-ERROR (tool failure, never a verdict). Fixed defects: known-findings.txt.',
    }
    json.dump(m, open('/verif/MANIFEST.json', 'w'), indent=1)
main()
