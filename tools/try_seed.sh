#!/bin/bash
# try_seed.sh <seed-name> <Cxx> [more checks...] : apply seeded/<seed-name>/patch.diff to /repo, run the
# quick checks, undo the patch.  Prints DETECTED / MISSED per check.
S=$1; shift
cd /verif
git -C /repo diff --quiet || { echo "/repo is dirty"; exit 2; }
git -C /repo apply /verif/seeded/$S/patch.diff || { echo "patch does not apply"; exit 2; }
trap 'git -C /repo checkout -- . ; ' EXIT
for c in "$@"; do
  out=$(./check $c 2>&1); rc=$?
  if [ $rc = 1 ] && echo "$out" | grep -q "^VIOLATION property=$c"; then echo "$S $c DETECTED"; echo "$out" | grep "violation key" | head -3
  elif [ $rc = 0 ]; then echo "$S $c MISSED"
  else echo "$S $c rc=$rc"; echo "$out" | tail -5; fi
done
