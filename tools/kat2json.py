#!/usr/bin/env python3
"""Convert reference KAT text files (test/kat/*.txt) into ndjson vectors for KatCheck.tla.
usage: kat2json.py <katdir> <out.ndjson> [--every N] [--max-len L]"""
import sys, json, os, re
def parse(path):
    recs=[]; cur={}
    for line in open(path):
        line=line.strip()
        if not line:
            if cur: recs.append(cur); cur={}
            continue
        k,_,v=line.partition('=')
        cur[k.strip()]=v.strip()
    if cur: recs.append(cur)
    return recs
def hx(s): return list(bytes.fromhex(s))
FILES={
 'ASCON-128.txt':('aead','128'),'ASCON-128a.txt':('aead','128a'),'ASCON-80pq.txt':('aead','80pq'),
 'ASCON-128-SIV.txt':('siv','128'),'ASCON-128a-SIV.txt':('siv','128a'),'ASCON-80pq-SIV.txt':('siv','80pq'),
 'ASCON-HASH.txt':('hash',None),'ASCON-HASHA.txt':('hasha',None),'ASCON-XOF.txt':('xof',None),'ASCON-XOFA.txt':('xofa',None),
 'ASCON-XOF-long-output.txt':('xof',None),'ASCON-XOFA-long-output.txt':('xofa',None),
 'ASCON-Prf.txt':('prf',None),'ASCON-Prf-long-output.txt':('prf',None),'ASCON-Mac.txt':('mac',None),'ASCON-PrfShort.txt':('prfshort',None),
 'ISAP-A-128.txt':('isap','128'),'ISAP-A-128A.txt':('isap','128a'),'ISAP-A-80PQ.txt':('isap','80pq'),
 'ASCON-HMAC.txt':('hmac','xof'),'ASCON-HMACA.txt':('hmac','xofa'),'ASCON-KMAC.txt':('kmac','xof'),'ASCON-KMACA.txt':('kmac','xofa'),
}
def main():
    katdir,out=sys.argv[1],sys.argv[2]
    every=1; only=None; maxlen=10**9
    a=sys.argv[3:]
    while a:
        if a[0]=='--every': every=int(a[1]); a=a[2:]
        elif a[0]=='--only': only=a[1].split(','); a=a[2:]
        elif a[0]=='--max-len': maxlen=int(a[1]); a=a[2:]
        else: raise SystemExit('bad arg '+a[0])
    n=0
    with open(out,'w') as f:
        for fn,(kind,v) in sorted(FILES.items()):
            if only and fn[:-4] not in only: continue
            p=os.path.join(katdir,fn)
            if not os.path.exists(p): continue
            for idx,r in enumerate(parse(p)):
                if 'PT' in r:
                    big = len(r['PT'])//2 in (0,7,8,9,15,16,17,31,32) and len(r['AD'])//2 in (0,1,7,8,9,15,16,17,32)
                    if every>1 and (idx % every)!=0 and not (every<100 and big and idx%3==0): continue
                    d={'fn':kind,'v':v,'k':hx(r['Key']),'n':hx(r['Nonce']),'ad':hx(r['AD']),'m':hx(r['PT']),'ct':hx(r['CT']),'src':fn,'count':int(r['Count'])}
                    f.write(json.dumps(d)+'\n'); n+=1
                    if kind=='aead' and idx % (every*4)==0:
                        d=dict(d); d['fn']='aeaddec'; f.write(json.dumps(d)+'\n'); n+=1
                else:
                    if every>1 and (idx % every)!=0: continue
                    m=hx(r['Msg']); o=hx(r.get('MD') or r.get('Tag') or r.get('Output') or '')
                    if len(m)>maxlen: continue
                    d={'fn':kind,'m':m,'out':o,'src':fn,'count':int(r['Count'])}
                    if v: d['v']=v
                    if 'Key' in r: d['k']=hx(r['Key'])
                    d['custom']=hx(r.get('Custom',''))
                    f.write(json.dumps(d)+'\n'); n+=1
    print(n,'vectors')
main()
