#!/bin/sh
# TLC launcher: big thread stacks (nested permutation folds), parallel GC,
# CommunityModules on the classpath, optional Java overrides in /verif/.build/jov.
JOV=${VERIF_ROOT:-/verif}/.build/jov
CP=/opt/veriftools/tla/tla2tools.jar:/opt/veriftools/tla/CommunityModules-deps.jar
[ -d "$JOV" ] && CP="$JOV:$CP"
exec java -Xss256m ${TLC_XMX:--Xmx3g} -XX:+UseParallelGC -XX:ParallelGCThreads=2 -XX:TieredStopAtLevel=${TLC_TIER:-4} \
  -cp "$CP" tlc2.TLC "$@"
