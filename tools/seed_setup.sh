#!/bin/bash
# seed_setup.sh <Cxx> <round-tag> <n> : scratch worktree /tmp/seedwt-<Cxx><tag>, output dir /tmp/seedout-<Cxx><tag> with
# property.json and prompt.txt (tools/seed_prompt.txt plus the titles of the changes already kept for that
# property, so that a new round does not repeat them).  The sub-agent sees nothing from /verif.
P=$1; T=$2; N=${3:-2}
W=/tmp/seedwt-$P$T; O=/tmp/seedout-$P$T
git -C /repo worktree remove --force $W 2>/dev/null; rm -rf $W $O
git -C /repo worktree add --detach $W HEAD >/dev/null 2>&1 || exit 1
mkdir -p $O
jq -c "select(.id==\"$P\")" /verif/properties.jsonl > $O/property.json
sed -e "s#@WT@#$W#g" -e "s#@OUT@#$O#g" -e "s#@N@#$N#g" /verif/tools/seed_prompt.txt > $O/prompt.txt
{ echo; echo "Changes of these kinds were already produced by others for this property; do NOT repeat their mechanism or code location, find different ones:";
  for d in /verif/seeded/$P-*; do [ -f $d/meta.json ] && jq -r '" - \(.title)  [\(.files_changed|join(", "))]"' $d/meta.json; done; } >> $O/prompt.txt
echo "$W $O"
