#!/usr/bin/env python3
"""mkmeta.py - writes seeded/<id>/meta.json from the seed's README.md (written by the sub-agent that
produced it), confirm.json (tools/confirm_seeds.sh) and the table in DESIGN.md section 12."""
import json, os, re, sys
R = os.path.dirname(os.path.dirname(os.path.abspath(__file__)))
rows = {}
for l in open(R + '/DESIGN.md'):
    m = re.match(r'^\| (C\d\d-\d+) \| (.*?) \| (.*?) \| (.*?) \|\s*$', l)
    if m: rows[m.group(1)] = m.groups()
def section(txt, *names):
    for n in names:
        m = re.search(r'^#+\s*[^\n]*' + n + r'[^\n]*\n(.*?)(?=^#+\s|\Z)', txt, re.S | re.M | re.I)
        if m: return re.sub(r'\s+', ' ', m.group(1)).strip()
    return ''
for s in sorted(os.listdir(R + '/seeded')):
    d = R + '/seeded/' + s
    if not os.path.isdir(d) or not re.match(r'^C\d\d-\d+$', s): continue
    txt = open(d + '/README.md').read() if os.path.exists(d + '/README.md') else ''
    conf = json.load(open(d + '/confirm.json')) if os.path.exists(d + '/confirm.json') else {}
    row = rows.get(s)
    title = (txt.strip().split('\n') or [''])[0].lstrip('# ').strip()
    files = sorted(set(re.findall(r'^\+\+\+ b/(\S+)', open(d + '/patch.diff').read(), re.M)))
    meta = {
        'seed': s, 'property': s.split('-')[0], 'title': title, 'files_changed': files,
        'breaks': section(txt, 'what it breaks', 'breaks', 'why it is wrong', 'the change', 'what was changed', 'change')[:1500],
        'needs_to_manifest': section(txt, 'needs to manifest', 'manifest', 'trigger')[:1500],
        'author_ran': section(txt, 'what i ran', 'ran', 'verification', 'verified', 'demonstration')[:1500],
        'confirmed_by_me': {
            'how': 'tools/confirm_seeds.sh: scratch worktree of /repo HEAD under /tmp, git apply, cmake+ninja, ctest (114 tests), run.sh against the changed tree and against a pristine tree; worktrees removed afterwards',
            'repo_head': conf.get('repo_head'), 'applies': conf.get('applies_to_head') == 1, 'builds': conf.get('builds') == 1,
            'tests_failed_with_change': conf.get('tests_failed_with_change'),
            'demo_exit_with_change': conf.get('demo_exit_with_change'), 'demo_exit_pristine': conf.get('demo_exit_pristine')},
        'detected_by': [x.strip() for x in row[2].split(',')] if row else [],
        'first_violation_key': row[3] if row else None,
        'detect_cmd': 'tools/try_seed.sh %s %s' % (s, (row[2].split(',')[0].strip() if row else s.split('-')[0])),
    }
    json.dump(meta, open(d + '/meta.json', 'w'), indent=1)
    if not meta['breaks'] or not meta['needs_to_manifest']: print('incomplete sections:', s, bool(meta['breaks']), bool(meta['needs_to_manifest']))
print(len(rows), 'rows')
