"""Shared machinery of the /verif checks: builds, TLC runs, driver runs, trace validation,
evidence files, violation reports.  Exit codes: 0 held, 1 violation, 2 infrastructure error."""
import os, sys, json, subprocess, time, re, shutil, random, hashlib, concurrent.futures as cf

ROOT = os.environ.get('VERIF_ROOT', '/verif')      # a background run (vp run) works in its own snapshot
BUILD = ROOT + '/.build'
SPEC = ROOT + '/spec'
REPO = os.environ.get('REPO', '/repo')
TLC = ROOT + '/tools/tlc.sh'
NPROC = int(os.environ.get('VERIF_JOBS', '16'))


class Infra(Exception):
    pass


def log(*a):
    print(*a, flush=True)


def sh(cmd, timeout=1200, env=None, cwd=None):
    e = dict(os.environ)
    if env:
        e.update(env)
    p = subprocess.run(cmd, shell=isinstance(cmd, str), stdout=subprocess.PIPE, stderr=subprocess.STDOUT,
                       timeout=timeout, env=e, cwd=cwd)
    return p.returncode, p.stdout.decode('utf-8', 'replace')


# ---------------------------------------------------------------------------------- builds
_built = {}


def build(flavour, allow_fail=False):
    """Build libascon_static.a + driver for a flavour from /repo's current tree.
    Returns path of the driver.  A build failure of /repo raises Infra unless allow_fail."""
    if flavour in _built:
        return _built[flavour]
    rc, out = sh([ROOT + '/tools/build.sh', flavour], timeout=900)
    if rc != 0:
        if allow_fail:
            _built[flavour] = None
            return None
        raise Infra('build of flavour %s failed (rc=%d):\n%s' % (flavour, rc, out[-3000:]))
    p = '%s/drv/%s/drv' % (BUILD, flavour)
    _built[flavour] = p
    return p


def build_extra(kind, flavour='rel'):
    """Build one of the separate driver programs against /repo's headers and library:
    'cxx'   = harness/cxx/drv_cxxhash.cpp (header-only C++ classes and helpers)
    'nostl' = harness/cxx/drv_bytearray.cpp with -DASCON_NO_STL (replacement byte_array)
    Returns (path or None, compiler output)."""
    build(flavour)
    lib = '%s/lib/%s' % (BUILD, flavour)
    out_dir = '%s/%s' % (BUILD, kind); os.makedirs(out_dir, exist_ok=True)
    exe = '%s/drv_%s' % (out_dir, kind)
    san = '-O1 -g -fsanitize=address,undefined -fno-sanitize-recover=all' if 'san' in flavour.split('+') else '-O1'
    if 'tsan' in flavour.split('+'):
        san = '-O1 -g -fsanitize=thread'; exe += '_tsan'
    if kind == 'nostl':
        # the class under test is compiled here from /repo/src/cplusplus/ascon-byte-array.cpp: always
        # instrumented (a write one past a heap block lands in allocator slack otherwise); the library
        # it links for the helper functions may be the plain build
        san = '-O1 -g -fsanitize=address,undefined -fno-sanitize-recover=all'
    if kind == 'cxx':
        cmd = 'g++ -std=c++11 %s -Wall -DDRV_EXTRA_ONLY -DHAVE_CONFIG_H -I%s/src -I%s -I%s/harness %s/harness/drv_main.cpp %s/harness/cxx/drv_cxxhash.cpp %s/src/libascon_static.a -lpthread -o %s' % (
            san, REPO, lib, ROOT, ROOT, ROOT, lib, exe)
    elif kind == 'nostl':
        cmd = 'g++ -std=c++11 %s -Wall -DDRV_EXTRA_ONLY -DASCON_NO_STL=1 -DHAVE_CONFIG_H -I%s/src -I%s -I%s/harness %s/harness/drv_main.cpp %s/harness/cxx/drv_bytearray.cpp %s/src/cplusplus/ascon-byte-array.cpp %s/src/libascon_static.a -o %s' % (
            san, REPO, lib, ROOT, ROOT, ROOT, REPO, lib, exe)
    else:
        raise Infra('unknown extra driver ' + kind)
    rc, out = sh(cmd, timeout=600)
    with open(out_dir + '/build.log', 'w') as f:
        f.write(cmd + '\n' + out)
    return (exe if rc == 0 else None), cmd, out


def build_many(flavours):
    with cf.ThreadPoolExecutor(max_workers=min(NPROC, 8)) as ex:
        list(ex.map(build, flavours))


# ---------------------------------------------------------------------------------- TLC model checking
def tlc_mc(module, cfg=None, workers=3, timeout=900, extra=(), env=None, simulate=None, coverage=True):
    """Run TLC on spec/<module>.tla with spec/<cfg>.cfg.  Returns dict(ok, states, distinct, out, coverage)."""
    cfg = cfg or module
    md = '%s/tlc/mc_%s_%d' % (BUILD, cfg, os.getpid())
    shutil.rmtree(md, ignore_errors=True)
    os.makedirs(md, exist_ok=True)
    cmd = [TLC, '-workers', str(workers), '-metadir', md] + (['-coverage', '1'] if coverage else []) + ['-config', cfg + '.cfg']
    if simulate:
        cmd += ['-simulate', simulate]
    cmd += list(extra) + [module + '.tla']
    t0 = time.time()
    try:
        for attempt in range(3):
            rc, out = sh(cmd, timeout=timeout, cwd=SPEC, env=env)
            if rc not in (-9, 137): break           # killed from outside (memory pressure): wait and run again
            time.sleep(30 * (attempt + 1))
    except subprocess.TimeoutExpired:
        shutil.rmtree(md, ignore_errors=True)
        raise Infra('TLC timeout on %s' % cfg)
    shutil.rmtree(md, ignore_errors=True)
    for f in os.listdir(SPEC):
        if '_TTrace_' in f:
            try:
                os.remove(os.path.join(SPEC, f))
            except OSError:
                pass
    res = {'rc': rc, 'out': out, 'wall_s': time.time() - t0, 'module': module, 'cfg': cfg}
    m = re.search(r'(\d+) states generated, (\d+) distinct states found', out)
    if m:
        res['generated'] = int(m.group(1))
        res['distinct'] = int(m.group(2))
    res['ok'] = ('No error has been found' in out) and rc == 0
    res['violated'] = bool(re.search(r'Invariant \S+ is violated|is violated|Postcondition .* is false|Temporal properties were violated', out))
    # per-action coverage: lines "<Action line ...>: distinct:generated"
    cov = {}
    for m in re.finditer(r'^<(\w+) line \d+, col \d+ to line \d+, col \d+ of module \w+>: (\d+):(\d+)', out, re.M):
        cov[m.group(1)] = cov.get(m.group(1), 0) + int(m.group(3))
    res['coverage'] = cov
    if not res['ok'] and not res['violated']:
        raise Infra('TLC failed on %s (rc=%d):\n%s' % (cfg, rc, out[-4000:]))
    return res


def require_coverage(res, actions=None, disabled=()):
    """Vacuity guard: every (listed) action of the model must have been taken
    (except those a configuration switches off on purpose)."""
    cov = res['coverage']
    bad = [a for a, n in cov.items() if n == 0 and (actions is None or a in actions) and a not in disabled]
    if actions:
        bad += [a for a in actions if a not in cov]
    if bad:
        raise Infra('vacuous model run %s: actions never taken: %s' % (res['cfg'], bad))


# ---------------------------------------------------------------------------------- plans, driver, traces
def hx(b):
    b = bytes(b)
    return b.hex() if b else '-'


class Plan:
    """A list of self-contained cases; each case is a list of plan lines starting from `reset`."""

    def __init__(self):
        self.cases = []

    def case(self, lines, cost=1.0, tag=''):
        self.cases.append((['reset'] + list(lines), cost, tag))

    def shards(self, max_cost=60.0, max_cases=400):
        out, cur, c = [], [], 0.0
        for lines, cost, tag in self.cases:
            if cur and (c + cost > max_cost or len(cur) >= max_cases):
                out.append(cur)
                cur, c = [], 0.0
            cur.append((lines, cost, tag))
            c += cost
        if cur:
            out.append(cur)
        return out


_verdicts = {}


def run_shard(args):
    """Run driver on one shard and validate with TLC.  Returns dict."""
    drv, shard_dir, lines, tracecfg, env = args
    os.makedirs(shard_dir, exist_ok=True)
    plan = shard_dir + '/plan.txt'
    trace = shard_dir + '/trace.ndjson'
    with open(plan, 'w') as f:
        f.write('\n'.join(lines) + '\n')
    e = {'ASAN_OPTIONS': 'detect_leaks=1:abort_on_error=0:exitcode=99', 'UBSAN_OPTIONS': 'print_stacktrace=1:halt_on_error=1:exitcode=98',
         'TSAN_OPTIONS': 'exitcode=97:halt_on_error=1'}
    if env:
        e.update(env)
    prefix = env.get('DRV_PREFIX', '').split() if env else []
    try:
        rc, out = sh(prefix + [drv, plan, trace], timeout=600, env=e)
    except subprocess.TimeoutExpired:
        rc, out = 124, 'driver timeout'
    with open(shard_dir + '/drv.out', 'w') as f:
        f.write('rc=%d\n%s' % (rc, out))
    if rc == 4 or rc == 2:
        return {'dir': shard_dir, 'status': 'infra', 'detail': 'driver harness error: ' + out[-500:]}
    # TLC's verdict on a trace is a function of the trace text: identical text (the same plan run
    # on another build configuration) reuses the verdict of the run that TLC already judged.
    try:
        h = hashlib.sha256(open(trace, 'rb').read() + tracecfg.encode()).hexdigest()
    except OSError:
        h = None
    if h and h in _verdicts and rc == 0:
        r = dict(_verdicts[h]); r['dir'] = shard_dir; r['cached'] = True
    else:
        r = validate_trace(trace, shard_dir, tracecfg)
        if h and r['status'] == 'ok' and rc == 0:
            _verdicts[h] = dict(r)
    r['drv_rc'] = rc
    r['drv_out'] = out[-2000:]
    if rc != 0 and r['status'] == 'ok':
        # the driver died (sanitizer, signal) after its last complete event
        r['status'] = 'rejected'
        r['detail'] = 'driver exited with %d: %s' % (rc, out[-800:])
    return r


def validate_trace(trace, work_dir, tracecfg='Trace'):
    md = work_dir + '/md'
    shutil.rmtree(md, ignore_errors=True)
    nev = sum(1 for _ in open(trace)) if os.path.exists(trace) else 0
    if nev == 0:
        return {'dir': work_dir, 'status': 'rejected', 'detail': 'empty trace', 'events': 0}
    module = tracecfg + '.tla' if os.path.exists('%s/%s.tla' % (SPEC, tracecfg)) else 'Trace.tla'
    cmd = [TLC, '-workers', '1', '-metadir', md, '-config', tracecfg + '.cfg', module]
    try:
        for attempt in range(3):
            rc, out = sh(cmd, timeout=3000, cwd=SPEC, env={'TRACE': trace, 'TLC_XMX': '-Xmx2g'})
            if rc not in (-9, 137): break           # killed from outside (memory pressure of a loaded machine): wait and run again
            time.sleep(20 * (attempt + 1)); shutil.rmtree(md, ignore_errors=True)
    except subprocess.TimeoutExpired:
        return {'dir': work_dir, 'status': 'infra', 'detail': 'TLC timeout', 'events': nev}
    shutil.rmtree(md, ignore_errors=True)
    with open(work_dir + '/tlc.out', 'w') as f:
        f.write(out)
    res = {'dir': work_dir, 'events': nev, 'rc': rc}
    if 'No error has been found' in out and rc == 0:
        res['status'] = 'ok'
    elif 'Invariant Conforms is violated' in out:
        res['status'] = 'rejected'
        ls = re.findall(r'^/\\ l = (\d+)', out, re.M)
        idx = int(ls[-1]) - 1 if ls else 0      # event consumed by the violating step (1-based)
        res['event_index'] = idx
        res['detail'] = 'specification result differs from implementation at event %d' % idx
        try:
            ev = open(trace).read().split('\n')[idx - 1]
            res['event'] = ev[:1500]
        except Exception:
            pass
        m = re.search(r'/\\ obs = (.*?)\n/\\ (?:exp|objs|l) ', out.split('Error: The behavior up to this point is:')[-1].split('State %d' % (idx + 1))[-1] if ls else out, re.S)
    elif 'Postcondition Consumed' in out:
        res['status'] = 'rejected'
        ls = re.search(r'The depth of the complete state graph search is (\d+)', out)
        d = int(ls.group(1)) if ls else 0
        res['event_index'] = d
        res['detail'] = 'trace not consumed: stopped before event %d of %d (fault event, truncation, or no action accepts it)' % (d, nev)
        try:
            res['event'] = open(trace).read().split('\n')[d - 1][:1500]
        except Exception:
            pass
    else:
        res['status'] = 'infra'
        res['detail'] = 'TLC rc=%d: %s' % (rc, out[-1500:])
    for f in os.listdir(SPEC):
        if '_TTrace_' in f:
            try:
                os.remove(os.path.join(SPEC, f))
            except OSError:
                pass
    return res


def run_plan(plan, flavour, name, tracecfg='Trace', max_cost=60.0, env=None, max_cases=400, drv=None):
    """Run all shards of a plan in parallel.  Returns (results, n_events)."""
    drv = drv or build(flavour)
    base = '%s/run/%s_%s' % (BUILD, name, flavour.replace('+', '_'))
    shutil.rmtree(base, ignore_errors=True)
    jobs = []
    for i, sh_ in enumerate(plan.shards(max_cost, max_cases)):
        lines = [l for c in sh_ for l in c[0]]
        jobs.append((drv, '%s/s%03d' % (base, i), lines, tracecfg, env or {}))
    with cf.ThreadPoolExecutor(max_workers=NPROC) as ex:
        results = list(ex.map(run_shard, jobs))
    return results


# ---------------------------------------------------------------------------------- known findings
def known_findings():
    kf = {'finding': [], 'fixed': []}
    p = ROOT + '/known-findings.txt'
    if os.path.exists(p):
        for line in open(p):
            line = line.strip()
            if not line or line.startswith('#'):
                continue
            m = re.match(r'(finding|fixed):\s*property=(\S+)\s+(.*)', line)
            if m:
                kf[m.group(1)].append((m.group(2), m.group(3)))
    return kf


# ---------------------------------------------------------------------------------- check runner
class Check:
    def __init__(self, pid, level):
        self.pid = pid
        self.level = level
        self.tier = os.environ.get('VERIF_TIER', 'quick')
        self.seed = int(os.environ.get('VERIF_SEED', '1'))
        self.t0 = time.time()
        self.rng = random.Random(self.seed * 1000003 + int(pid[1:]))
        self.violations = []       # (key, detail, replay_dir)
        self.known = []
        self.cov = {'states': 0, 'transitions': 0, 'traces_validated_against_impl': 0, 'samples': [],
                    'evaluations': 0, 'distinct_nontrivial': 0, 'models': [], 'flavours': []}
        self.assumptions = []
        self._distinct = set()

    # -- model checking part
    def mc_bg(self, module, cfg=None, **kw):
        """start a model-checking run in the background; joined (and judged) by finish()"""
        if not hasattr(self, '_bg'):
            self._bg = []
            self._ex = cf.ThreadPoolExecutor(max_workers=6)
        self._bg.append(self._ex.submit(self.mc, module, cfg, **kw))

    def apalache_bg(self, module, init, inv, length, must_fail=False, timeout=900):
        """a symbolic (SMT) check with Apalache: `inv` holds in every state reachable in `length` steps from
        `init` (length 0 with the model's Init = base case; length 1 from the invariant itself = inductive step)"""
        if not hasattr(self, '_bg'):
            self._bg = []
            self._ex = cf.ThreadPoolExecutor(max_workers=6)
        self._bg.append(self._ex.submit(self.apalache, module, init, inv, length, must_fail, timeout))

    def apalache(self, module, init, inv, length, must_fail=False, timeout=900):
        out_dir = '%s/apalache/%s_%s_%s_%d' % (BUILD, self.pid, module, inv, length)
        shutil.rmtree(out_dir, ignore_errors=True); os.makedirs(out_dir)
        t0 = time.time()
        cmd = ['apalache-mc', 'check', '--init=' + init, '--inv=' + inv, '--length=%d' % length, '--out-dir=' + out_dir, module + '.tla']
        try:
            p = subprocess.run(cmd, cwd=ROOT + '/spec', stdout=subprocess.PIPE, stderr=subprocess.STDOUT, timeout=timeout)
            rc, out = p.returncode, p.stdout.decode(errors='replace')
        except subprocess.TimeoutExpired:
            raise Infra('apalache %s %s did not finish in %d s' % (module, inv, timeout))
        entry = {'model': '%s (Apalache: init %s, invariant %s, length %d)' % (module, init, inv, length), 'distinct_states': None, 'generated': None,
                 'wall_s': round(time.time() - t0, 1), 'actions': {}, 'symbolic': True}
        ok = rc == 0 and 'EXITCODE: OK' in out
        refuted = rc == 12 or 'Checker has found an error' in out
        if not ok and not refuted:
            raise Infra('apalache failed on %s/%s: %s' % (module, inv, out[-400:]))
        if must_fail:
            entry['negative_test'] = True
            if ok: raise Infra('negative Apalache check %s/%s unexpectedly passed' % (module, inv))
            self.cov['models'].append(entry); return
        self.cov['models'].append(entry)
        if refuted:
            rd = self.replay_dir('apalache_%s_%s' % (module, inv))
            with open(rd + '/apalache.out', 'w') as f: f.write(out)
            with open(rd + '/replay.sh', 'w') as f: f.write('#!/bin/sh\ncd %s/spec && %s\n' % (ROOT, ' '.join(cmd)))
            self.violation('model:%s:%s' % (module, inv), 'Apalache refutes %s in %s' % (inv, module), rd)

    def join_bg(self):
        for f in getattr(self, '_bg', []):
            f.result()
        self._bg = []

    def mc(self, module, cfg=None, must_fail=False, actions=None, disabled=(), min_states=None, **kw):
        """min_states: vacuity guard for models run without -coverage (per-action statistics are
        prohibitively slow on models with deep recursive terms): the run must reach that many states."""
        if min_states is not None:
            kw['coverage'] = False
        r = tlc_mc(module, cfg, **kw)
        entry = {'model': cfg or module, 'distinct_states': r.get('distinct'), 'generated': r.get('generated'),
                 'wall_s': round(r['wall_s'], 1), 'actions': r['coverage']}
        if must_fail:
            entry['negative_test'] = True
            if r['ok']:
                raise Infra('negative model %s unexpectedly passed (checker would be vacuous)' % (cfg or module))
            self.cov['models'].append(entry)
            return r
        self.cov['models'].append(entry)
        if not r['ok']:
            rd = self.replay_dir('mc_' + (cfg or module))
            with open(rd + '/tlc.out', 'w') as f:
                f.write(r['out'])
            self.violation('model:' + (cfg or module), 'TLC reports a violation in model %s' % (cfg or module), rd)
            return r
        if min_states is None:
            require_coverage(r, actions, disabled)
        elif r.get('distinct', 0) < min_states:
            raise Infra('model %s explored only %s states (expected at least %d)' % (cfg or module, r.get('distinct'), min_states))
        self.cov['states'] += r.get('distinct', 0)
        self.cov['transitions'] += r.get('generated', 0)
        return r

    # -- trace validation part
    def tv(self, plan, flavour, name, key_fn=None, **kw):
        if flavour not in self.cov['flavours']:
            self.cov['flavours'].append(flavour)
        t_tv = time.time()
        results = run_plan(plan, flavour, '%s_%s' % (self.pid, name), **kw)
        self.cov.setdefault('tv_runs', []).append({'name': name, 'flavour': flavour, 'shards': len(results), 'cases': len(plan.cases), 'wall_s': round(time.time() - t_tv, 1)})
        for r in results:
            if r['status'] == 'infra':
                raise Infra(r.get('detail', 'infra'))
        bad = [r for r in results if r['status'] != 'ok']
        confirmed = []
        for r in bad[:6]:
            # report only what an immediate re-run of the same shard reproduces
            drv = kw.get('drv') or build(flavour)
            lines = open(r['dir'] + '/plan.txt').read().split('\n')
            r2 = run_shard((drv, r['dir'] + '_rerun', [x for x in lines if x], kw.get('tracecfg', 'Trace'), kw.get('env') or {}))
            if r2['status'] == 'infra':
                raise Infra(r2.get('detail', 'infra on re-run'))
            if r2['status'] != 'ok':
                confirmed.append(r2)
            else:
                raise Infra('non-reproducible rejection in %s (first: %s)' % (r['dir'], r.get('detail')))
        nev = sum(r.get('events', 0) for r in results)
        self.cov['traces_validated_against_impl'] += len([r for r in results if r['status'] == 'ok'])
        self.cov['traces_judged_by_tlc'] = self.cov.get('traces_judged_by_tlc', 0) + len([r for r in results if r['status'] == 'ok' and not r.get('cached')])
        self.cov['evaluations'] += nev
        for r in confirmed:
            rd = self.replay_dir(os.path.basename(r['dir']))
            for fn in ('plan.txt', 'trace.ndjson', 'tlc.out', 'drv.out'):
                if os.path.exists(r['dir'] + '/' + fn):
                    shutil.copy(r['dir'] + '/' + fn, rd + '/' + fn)
            with open(rd + '/flavour', 'w') as f:
                f.write(flavour + '\n' + kw.get('tracecfg', 'Trace') + '\n' + (kw.get('drv') or '') + '\n')
            key = key_fn(r) if key_fn else default_key(r)
            self.violation(key, '%s [flavour %s] event: %s' % (r.get('detail'), flavour, (r.get('event') or '')[:300]), rd)
        # samples: first events of the first shard
        if results and len(self.cov['samples']) < 6:
            try:
                with open(results[0]['dir'] + '/trace.ndjson') as f:
                    for i, line in enumerate(f):
                        if i in (1, 2, 3) and len(self.cov['samples']) < 6:
                            self.cov['samples'].append(json.loads(line[:200000]) if len(line) < 3000 else line[:600])
            except Exception:
                pass
        return results

    def tv_sample(self, plan, name, flavours, k=40, max_cost=20.0, pred=None):
        """quick tier: a random sample of the plan's cases (optionally those satisfying pred) replayed on other
        back ends / share configurations.  The sample is judged by TLC once; a configuration whose trace text
        is identical inherits the verdict, so the cost is one extra validation plus the driver runs."""
        cases = [cs for cs in plan.cases if pred is None or pred(cs)]
        if len(cases) > k: cases = self.rng.sample(cases, k)
        q = Plan(); q.cases = cases
        build_many(list(flavours))
        for fl in flavours:
            self.tv(q, fl, name, max_cost=max_cost)

    def distinct(self, items):
        for it in items:
            self._distinct.add(it)

    def replay_dir(self, name):
        d = '%s/replay/%s/%s' % (ROOT, self.pid, name)
        shutil.rmtree(d, ignore_errors=True)
        os.makedirs(d, exist_ok=True)
        return d

    def violation(self, key, detail, replay):
        kf = known_findings()
        for pid, text in kf['finding']:
            if pid == self.pid and text.split()[0] == 'key=' + key:
                self.known.append((key, text))
                return
        self.violations.append((key, detail, replay))

    def finish(self):
        self.join_bg()
        wall = time.time() - self.t0
        c = self.cov
        c['distinct_nontrivial'] = max(c.get('distinct_nontrivial', 0), len(self._distinct))
        if c['states'] == 0:
            c.pop('states')
            c.pop('transitions')
        ev = {'property_id': self.pid, 'tier': self.tier, 'seed': self.seed, 'level': self.level,
              'coverage': c, 'assumptions': self.assumptions, 'wall_s': round(wall, 1),
              'violations': len(self.violations)}
        os.makedirs(ROOT + '/evidence', exist_ok=True)
        with open('%s/evidence/%s.json' % (ROOT, self.pid), 'w') as f:
            json.dump(ev, f, indent=1, default=str)
        for key, text in self.known:
            print('KNOWN-FINDING: property=%s %s' % (self.pid, text))
        for key, detail, replay in self.violations:
            print('  violation key=%s: %s' % (key, detail))
            print('VIOLATION property=%s replay=%s' % (self.pid, replay))
        sys.stdout.flush()
        return 1 if self.violations else 0


def default_key(r):
    ev = r.get('event') or ''
    m = re.search(r'"e":"([^"]+)"', ev)
    k = m.group(1) if m else 'trace'
    m = re.search(r'"(?:kind|scheme)":"([^"]+)"', ev)
    if m:
        k += ':' + m.group(1)
    return k


def main(run, pid, level):
    try:
        c = Check(pid, level)
        run(c)
        sys.exit(c.finish())
    except Infra as e:
        print('INFRA-ERROR property=%s: %s' % (pid, e))
        sys.exit(2)


def replay(pid, d):
    """Re-run a saved violation: the plan through the driver, the trace through TLC."""
    try:
        if os.path.exists(d + '/plan.txt'):
            fl, cfg, xdrv = (open(d + '/flavour').read().split('\n') + ['Trace', ''])[:3] if os.path.exists(d + '/flavour') else ('rel', 'Trace', '')
            drv = build(fl)
            if xdrv:
                kind = 'nostl' if 'nostl' in xdrv else 'cxx'
                drv, _, out = build_extra(kind, fl)
                if not drv:
                    print(out[-2000:]); print('VIOLATION property=%s replay=%s' % (pid, d)); return 1
            lines = [x for x in open(d + '/plan.txt').read().split('\n') if x]
            r = run_shard((drv, BUILD + '/run/replay_%d' % os.getpid(), lines, cfg or 'Trace', {}))
            print(json.dumps({k: v for k, v in r.items() if k != 'drv_out'}, indent=1)[:3000])
            if r['status'] == 'ok':
                print('replay: trace accepted'); return 0
            if r['status'] == 'infra':
                print('INFRA-ERROR', r.get('detail')); return 2
            print('VIOLATION property=%s replay=%s' % (pid, d)); return 1
        if os.path.exists(d + '/tlc.out'):
            print(open(d + '/tlc.out').read()[-3000:]); return 1
        if os.path.exists(d + '/replay.sh'):
            rc, out = sh(['sh', d + '/replay.sh'], timeout=1200)
            print(out[-3000:]); return 1 if rc else 0
        print('nothing to replay in', d); return 2
    except Infra as e:
        print('INFRA-ERROR', e); return 2


# ---------------------------------------------------------------------------------- command-line tools
def build_full(flavour='rel'):
    rc, out = sh([ROOT + '/tools/build_full.sh', flavour], timeout=900)
    if rc != 0:
        raise Infra('full build %s failed: %s' % (flavour, out[-2000:]))


def run_tool_shard(args):
    flavour, shard_dir, scen = args
    os.makedirs(shard_dir, exist_ok=True)
    with open(shard_dir + '/scenarios.json', 'w') as f:
        json.dump(scen, f)
    with open(shard_dir + '/flavour', 'w') as f:
        f.write(flavour + '\nTrace\n\n')
    trace = shard_dir + '/trace.ndjson'
    rc, out = sh(['python3', ROOT + '/tools/toolrun.py', flavour, shard_dir + '/scenarios.json', trace], timeout=1200)
    if rc != 0:
        return {'dir': shard_dir, 'status': 'infra', 'detail': 'toolrun failed: ' + out[-800:]}
    r = validate_trace(trace, shard_dir, 'Trace')
    r['drv_rc'] = 0
    return r


def _tool_tv(self, scenarios, flavour, name, per_shard=40, key_fn=None):
    """run tool scenarios (tools/toolrun.py) on the full build of a flavour and validate the trace"""
    if 'tools:' + flavour not in self.cov['flavours']:
        self.cov['flavours'].append('tools:' + flavour)
    build_full(flavour)
    base = '%s/run/%s_%s_%s' % (BUILD, self.pid, name, flavour)
    shutil.rmtree(base, ignore_errors=True)
    jobs = [(flavour, '%s/s%03d' % (base, i // per_shard), scenarios[i:i + per_shard]) for i in range(0, len(scenarios), per_shard)]
    t0 = time.time()
    with cf.ThreadPoolExecutor(max_workers=NPROC) as ex:
        results = list(ex.map(run_tool_shard, jobs))
    for r in results:
        if r['status'] == 'infra':
            raise Infra(r.get('detail', 'infra'))
    bad = [r for r in results if r['status'] != 'ok']
    confirmed = []
    for r in bad[:8]:
        scen = json.load(open(r['dir'] + '/scenarios.json'))
        r2 = run_tool_shard((flavour, r['dir'] + '_rerun', scen))
        if r2['status'] == 'infra':
            raise Infra(r2.get('detail'))
        if r2['status'] == 'ok':
            raise Infra('non-reproducible rejection in %s' % r['dir'])
        confirmed.append(r2)
    self.cov['traces_validated_against_impl'] += len([r for r in results if r['status'] == 'ok'])
    self.cov['evaluations'] += sum(r.get('events', 0) for r in results)
    self.cov.setdefault('tv_runs', []).append({'name': name, 'flavour': 'tools:' + flavour, 'shards': len(results), 'cases': len(scenarios), 'wall_s': round(time.time() - t0, 1)})
    for r in confirmed:
        rd = self.replay_dir(os.path.basename(r['dir']))
        for fn in ('scenarios.json', 'trace.ndjson', 'tlc.out', 'flavour'):
            if os.path.exists(r['dir'] + '/' + fn):
                shutil.copy(r['dir'] + '/' + fn, rd + '/' + fn)
        ev = r.get('event') or ''
        key = key_fn(ev) if key_fn else tool_key(ev)
        self.violation(key, '%s [tools %s] event: %s' % (r.get('detail'), flavour, ev[:400]), rd)
    if results and len(self.cov['samples']) < 6:
        try:
            for i, line in enumerate(open(results[0]['dir'] + '/trace.ndjson')):
                if i < 2: self.cov['samples'].append(json.loads(line) if len(line) < 3000 else line[:600])
        except Exception:
            pass
    return results


def tool_key(ev):
    try:
        d = json.loads(ev)
    except Exception:
        return 'tool'
    k = d.get('e', 'tool')
    if 'what' in d: k += ':' + d['what']
    if d.get('fault', {}).get('op', 'none') != 'none': k += ':' + d['fault']['op'] + ':' + d['fault']['kind']
    if 'tag' in d and d['tag']: k += ':' + d['tag']
    return k


Check.tv_tools = _tool_tv

_old_replay = replay


def replay(pid, d):
    if os.path.exists(d + '/scenarios.json'):
        try:
            fl = open(d + '/flavour').read().split('\n')[0] if os.path.exists(d + '/flavour') else 'rel'
            build_full(fl)
            r = run_tool_shard((fl, BUILD + '/run/replay_%d' % os.getpid(), json.load(open(d + '/scenarios.json'))))
            print(json.dumps({k: v for k, v in r.items()}, indent=1)[:3000])
            if r['status'] == 'ok':
                print('replay: trace accepted'); return 0
            if r['status'] == 'infra':
                print('INFRA-ERROR', r.get('detail')); return 2
            print('VIOLATION property=%s replay=%s' % (pid, d)); return 1
        except Infra as e:
            print('INFRA-ERROR', e); return 2
    return _old_replay(pid, d)
